"""Property module for C09 (plugs into sim.batch)."""
import copy
import json
import os
import random
import time

from . import engine
from .batch import VERIF, run_seed_of
from .proc import fork_call

ASSUMPTIONS = [
    'thread interleavings are explored at kingdon source-line boundaries (bytecode boundaries in the '
    'cache-critical functions on a per-run subset); sympy/numpy internals and generated functions run atomically',
    'the JIT wrapper is a semantics-preserving stub (numba is not installed)',
    'the oracle is real kingdon code on a freshly created algebra in a pristine forked process; it shares the '
    'source tree under test, so a defect that makes a *fresh* algebra wrong is out of scope of C09 by definition',
    'allocation failure / user interrupt are modelled as MemoryError / KeyboardInterrupt raised at a kingdon line '
    'whose callers are kingdon, generated, standard-library or harness frames only',
    'float coefficients are compared with rtol 1e-9 / atol 1e-11; sympy coefficients by simplify(a-b)==0 with a '
    'rational-point fallback; a difference only in which blades are stored is not a violation',
]

_ORACLE = None
_CRIT = None
_TARGETS = None
RUN_TIMEOUT = 240


def worker_init(tier):
    global _ORACLE, _CRIT, _TARGETS
    import kingdon
    from .oracle import Oracle
    _ORACLE = Oracle()
    _CRIT = sorted({c.co_qualname for c in engine.critical_codes(engine.discover_code())})
    _TARGETS = [list(x) for x in engine.fault_targets(engine.discover_code())]


def directed_files():
    import glob
    return sorted(glob.glob(os.path.join(VERIF, 'findings', 'C09-*.json')))


def n_directed():
    return len(directed_files())


def make_trace(seed, index, tier):
    from .gen import gen_trace
    if index < 0:
        # directed regression traces: the histories of findings that were repaired
        with open(directed_files()[-index - 1]) as f:
            tr = json.load(f)
        tr['seed'] = seed
        tr['run'] = index
        tr.pop('violation', None)
        tr['explicit'] = True
        return tr
    rs = run_seed_of(seed, index)
    rng = random.Random(rs)
    tr = gen_trace(rng, tier, _CRIT, targets=_TARGETS)
    tr['seed'] = seed
    tr['run'] = index
    tr['tier'] = tier
    return tr


def execute(trace, keep_events=0):
    """Expected outcomes from the oracle, then the run itself in a forked child."""
    from .c09 import Run, compute_expected
    global _ORACLE
    if _ORACLE is None:
        worker_init('quick')
    expected, dropped = compute_expected(trace, _ORACLE)
    status, res = fork_call(lambda: Run(trace, expected).execute(keep_events=keep_events).result(),
                            RUN_TIMEOUT, watchdog=RUN_TIMEOUT - 20)
    return status, res, dropped


def run_one(seed, index, tier):
    tr = make_trace(seed, index, tier)
    q0 = dict(_ORACLE.stats)
    status, res, dropped = execute(tr)
    if status != 'ok':
        return dict(harness_error=f'run child {status}: {res}')
    if res.get('setup_error'):
        return dict(harness_error=f"world set-up failed: {res['setup_error']} trace={json.dumps(tr)[:2000]}")
    if res.get('abort'):
        return dict(harness_error=f"run abandoned: {res['abort']}")
    fk = {}
    in_update = nested = 0
    for f in res.get('faults_fired', []):
        fk[f[2]] = fk.get(f[2], 0) + 1
        st = f[4] if isinstance(f[4], tuple) else ()
        n = sum(1 for q in st if q.endswith('__getitem__') and 'Dict' in q or q.startswith('Registry.__getitem__'))
        if n >= 1:
            in_update += 1
        if n >= 2:
            nested += 1
    probes = dict(res.get('probes', {}))
    if in_update:
        probes['fault_inside_cache_update'] = in_update
    if nested:
        probes['fault_inside_nested_generation'] = nested
    s = dict(
        trace_hash=hash_trace(tr), digest=res['digest'], switch_digest=res['switch_digest'], steps=res['steps'], switches=res['switches'],
        ops=res['ops_done'], callers=len(tr['callers']), algebras=len(tr['world']['algebras']),
        policy=tr['policy']['kind'], faults_planned=len(tr.get('faults', [])) + len(tr['world'].get('wrapper_faults', [])),
        faults_fired=fk, fault_skipped_dirty=res.get('fault_skipped_dirty', 0), probes=probes,
        storage_only=res['storage_only'], dropped=dropped, cache_states=res.get('cache_states', []),
        ncodes=res.get('ncodes'), wrapper=any(a.get('wrapper') for a in tr['world']['algebras']),
        oracle={k: _ORACLE.stats[k] - q0[k] for k in ('pristine', 'memo_hits', 'timeouts', 'errors')},
        violations=res['violations'],
        dims=sorted({_dim(a) for a in tr['world']['algebras']}),
        opmix=_opmix(tr),
        arms=[k for k in ('twins', 'race', 'instr', 'instr_poly', 'warn_as_error', 'hold_refs') if tr['world'].get(k)] +
             (['mirror'] if _is_mirror(tr) else []) + (['graded'] if any(a.get('graded') for a in tr['world']['algebras']) else []) +
             (['cse_off'] if any(a.get('cse') is False for a in tr['world']['algebras']) else []) +
             (['sympy_symbolcls'] if any(a.get('symbolcls') for a in tr['world']['algebras']) else []) +
             (['named_basis'] if any(a.get('name') for a in tr['world']['algebras']) else []),
    )
    if res['violations']:
        tr2 = copy.deepcopy(tr)
        tr2['schedule'] = res['segments']
        tr2['explicit'] = True
        s['trace'] = tr2
    if 0 <= index < 3:
        s['sample'] = sample_of(tr, res)
    return s


def _opmix(tr):
    m = {}
    for prog in tr['callers']:
        for op in prog:
            k = f"{op['kind']}:{op.get('op') or op.get('fn') or ''}"
            m[k] = m.get(k, 0) + 1
            for a in op.get('args', []):
                kk = 'operand:' + a.get('k', '?')
                m[kk] = m.get(kk, 0) + 1
    return m


def _is_mirror(tr):
    algs = {op['alg'] for prog in tr['callers'] for op in prog}
    if len(algs) < 2 or not tr['callers']:
        return False
    prog = tr['callers'][0]
    h = len(prog) // 2
    strip = lambda o: {k: v for k, v in o.items() if k != 'alg'}
    return len(prog) >= 2 and len(prog) % 2 == 0 and [strip(o) for o in prog[:h]] == [strip(o) for o in prog[h:]] \
        and prog[0]['alg'] != prog[h]['alg']


def hash_trace(tr):
    import hashlib
    return hashlib.blake2b(json.dumps(tr, sort_keys=True, default=str).encode(), digest_size=8).hexdigest()


def _dim(a):
    from .gen import dim_of
    return dim_of(a)


def sample_of(tr, res):
    return dict(world=tr['world'], callers=tr['callers'], faults=tr['faults'], policy=tr['policy'],
                schedule_segments=len(res.get('segments', [])), schedule_head=res.get('segments', [])[:12],
                outcomes=res.get('outcomes'), digest=res.get('digest'))


def aggregate(summaries, tier):
    n = len(summaries)
    probes, faults = {}, {}
    digests_nt = set()
    inter, states = set(), set()
    steps = switches = ops = storage = dirty = 0
    oracle = dict(pristine=0, memo_hits=0, timeouts=0, errors=0)
    pol, dims, callers = {}, {}, {}
    opmix, arms = {}, {}
    samples = []
    wrapper_runs = 0
    for s in summaries:
        steps += s['steps']
        switches += s['switches']
        ops += s['ops']
        storage += s['storage_only']
        dirty += s['fault_skipped_dirty']
        for k, v in s['probes'].items():
            probes[k] = probes.get(k, 0) + v
        for k, v in s['faults_fired'].items():
            faults[k] = faults.get(k, 0) + v
        for k in oracle:
            oracle[k] += s['oracle'][k]
        if s['probes']:
            digests_nt.add(s['digest'])
        inter.add(s['switch_digest'])
        states.update(s['cache_states'])
        pol[s['policy']] = pol.get(s['policy'], 0) + 1
        callers[str(s['callers'])] = callers.get(str(s['callers']), 0) + 1
        wrapper_runs += bool(s['wrapper'])
        for d in s['dims']:
            dims[str(d)] = dims.get(str(d), 0) + 1
        for k, v in s.get('opmix', {}).items():
            opmix[k] = opmix.get(k, 0) + v
        for k in s.get('arms', []):
            arms[k] = arms.get(k, 0) + 1
        if 'sample' in s:
            samples.append(s['sample'])
    return dict(
        evaluations=n,
        distinct_nontrivial=len(digests_nt),
        rule='one evaluation = one simulated world (1-3 algebras, 1-4 caller threads, 3-10 operations each, fault '
             'plan, scheduler policy) generated from seed*1000003+index and executed under the deterministic '
             'scheduler; non-trivial = at least one reach probe fired (key set revisited in another order, pattern '
             'first used by another thread, numspace name re-bound, two threads inside generation, fault inside a '
             'cache update, ...); distinct = distinct event-log digest (every pre-emption point, fault and outcome)',
        samples=samples[:3],
        operations=ops, scheduler_steps=steps, context_switches=switches,
        faults_fired=faults, faults_deferred_because_third_party_frame_on_stack=dirty,
        probes=probes, distinct_interleavings=len(inter), distinct_cache_states=len(states),
        storage_only_differences=storage, oracle_queries=oracle,
        runs_by_policy=pol, runs_by_dimension=dims, runs_by_callers=callers, runs_with_wrapper=wrapper_runs,
        runs_by_arm=arms, operations_by_kind=dict(sorted(opmix.items())),
        seed_formula='run seed = VERIF_SEED * 1000003 + run index; scheduler seed drawn from the run PRNG',
        instrumented_code_objects=max([s.get('ncodes') or 0 for s in summaries] or [0]),
        components=dict(
            real=['kingdon.* from /repo working tree (unmodified, no hooks)', 'sympy', 'numpy', 'caller threads (real '
                  'threading.Thread, baton-passed)', 'oracle: kingdon on a fresh Algebra in a pristine forked process'],
            stub=['JIT wrapper (semantics-preserving stub, pre-emption and fault point)',
                  'threading.Lock/RLock created from kingdon frames (simulator-aware locks)']),
    )


# ------------------------------------------------------------------------------------- violations

def vclass(v):
    """Violation class used while minimising: clause family + operation family."""
    d = v.get('desc') or {}
    return (v['clause'].split('-')[0].replace('I3', 'I1'), d.get('kind'), d.get('op') or d.get('fn'))


def fails(trace, want=None):
    """Re-executes a trace; returns (violation, result) of the first violation of class `want`."""
    tr = copy.deepcopy(trace)
    status, res, _ = execute(tr)
    if status != 'ok' or res.get('setup_error') or res.get('abort'):
        return None, res
    for v in res['violations']:
        if want is None or vclass(v)[0] == want[0]:
            return v, res
    return None, res


def report_violation(summary, seed, index, known, log=print):
    from .minimise import minimise
    trace = summary['trace']
    v0 = summary['violations'][0]
    want = vclass(v0)
    t0 = time.time()
    small, v, res = minimise(trace, want, fails, budget_s=float(os.environ.get('VERIF_MINIMISE_S', '240')), log=log)
    log(f'minimised in {time.time() - t0:.0f}s to {sum(len(p) for p in small["callers"])} operations, '
        f'{len(small.get("faults", []))} faults, {len(small.get("schedule") or [])} schedule segments')
    # canonical form: replay the minimised trace until the schedule it executes is the schedule it names
    for _ in range(3):
        v1, res1 = fails(small, want)
        if v1 is None:
            break
        same = res1['digest'] == res['digest']
        small['schedule'] = res1['segments']
        v, res = v1, res1
        if same:
            break
    # replay twice more in fresh processes
    ok = 0
    for _ in range(2):
        v2, res2 = fails(small, want)
        if v2 is not None and res2['digest'] == res['digest']:
            ok += 1
    if ok < 2:
        os.makedirs(os.path.join(VERIF, 'replays'), exist_ok=True)
        upath = os.path.join(VERIF, 'replays', f'C09-unreproduced-{seed}-{index}.json')
        small['violation'] = v
        small['digest'] = res['digest']
        with open(upath, 'w') as f:
            json.dump(small, f, indent=1, default=str)
        return 'unreproducible', None, f'replayed {ok}/2 times (trace kept at {upath})'
    small['violation'] = v
    small['digest'] = res['digest']
    small['outcomes'] = res.get('outcomes')
    os.makedirs(os.path.join(VERIF, 'replays'), exist_ok=True)
    path = os.path.join(VERIF, 'replays', f'C09-{seed}-{index}.json')
    with open(path, 'w') as f:
        json.dump(small, f, indent=1, default=str)
    sig = finding_signature(small, v)
    for k in known.get('open', []):
        if k.get('property') == 'C09' and k.get('signature') == sig:
            return 'known', path, f"{k.get('what', sig)} (replay {path})"
    return 'violation', path, dict(clause=v['clause'], expected=v.get('expected'), got=v.get('got'),
                                   op=v.get('desc'), signature=sig, replay=path)


def finding_signature(trace, v):
    d = v.get('desc') or {}
    return f"{v['clause']}:{d.get('kind')}:{d.get('op') or d.get('fn')}"


def replay_file(path, log=print):
    with open(path) as f:
        tr = json.load(f)
    tr['explicit'] = True
    want = vclass(tr['violation']) if tr.get('violation') else None
    v, res = fails(tr, want)
    return v, res, tr
