"""Property module for C10 (plugs into sim.batch)."""
import copy
import json
import os
import random
import time

from . import engine
from .batch import VERIF, run_seed_of
from .proc import fork_call

ASSUMPTIONS = [
    'generation events are: entry into a codegen callable found in alg.registry (PY_START via sys.monitoring), '
    'compile()/exec() called from a kingdon frame (builtins patched for the duration of a run), and applications '
    'of the stub wrapper; an implementation that generated code by none of these means would be invisible',
    'a call is "warm" when the same descriptor (operator, form, parameters, operand key patterns) completed '
    'successfully earlier in the history, or the key pattern was `in` the operator dict before the call; for '
    'Python-level composite methods (norm, normalized, **, exp, dual) the descriptor also records whether operands '
    'are symbolic, because symbolic zero-filtering can legitimately change intermediate key patterns',
    'calls of symbolic multivectors (mv(**values)) are excluded: their function is cached per object, not per operator',
    'the wrapper is a semantics-preserving stub; numba is not installed',
]

_CRIT = None
_TARGETS = None
RUN_TIMEOUT = 240


def worker_init(tier):
    global _CRIT, _TARGETS
    import kingdon
    _CRIT = sorted({c.co_qualname for c in engine.critical_codes(engine.discover_code())})
    _TARGETS = [list(x) for x in engine.fault_targets(engine.discover_code())]


def directed_files():
    import glob
    return sorted(glob.glob(os.path.join(VERIF, 'findings', 'C10-*.json')))


def n_directed():
    return len(directed_files())


def make_trace(seed, index, tier):
    from .gen10 import gen_trace10
    if index < 0:
        with open(directed_files()[-index - 1]) as f:
            tr = json.load(f)
        tr.pop('violation', None)
    else:
        tr = gen_trace10(random.Random(run_seed_of(seed, index)), tier, _CRIT or (), targets=_TARGETS or ())
    tr['seed'] = seed
    tr['run'] = index
    tr['tier'] = tier
    return tr


def execute(trace):
    from .c10 import Run10
    if _CRIT is None:
        worker_init('quick')
    status, res = fork_call(lambda: Run10(trace).execute().result(), RUN_TIMEOUT, watchdog=RUN_TIMEOUT - 20)
    return status, res


def run_one(seed, index, tier):
    tr = make_trace(seed, index, tier)
    status, res = execute(tr)
    if status != 'ok':
        return dict(harness_error=f'run child {status}: {res}')
    if res.get('setup_error'):
        return dict(harness_error=f"world set-up failed: {res['setup_error']} trace={json.dumps(tr)[:1500]}")
    if res.get('abort'):
        return dict(harness_error=f"run abandoned: {res['abort']}")
    fk = {}
    for f in res.get('faults_fired', []):
        fk[f[2]] = fk.get(f[2], 0) + 1
    st = res['stats']
    s = dict(digest=res['digest'], steps=res['steps'], stats=st, matrix=res['matrix'], events=res['events'],
             faults_fired=fk, descriptors=res['descriptors'], ncodes=res['ncodes'],
             nontrivial=bool(st['warm_after_other_kind'] or st['warm_after_failure']),
             wrapper=any(a.get('wrapper') for a in tr['world']['algebras']),
             violations=res['violations'])
    if st.get('truncated_by_wall_clock') is not None:
        s['trace_hash'] = f'truncated-{index}-{time.time()}'
        s['oracle'] = {'timeouts': 1}
    if res['violations']:
        tr2 = copy.deepcopy(tr)
        tr2['explicit'] = True
        s['trace'] = tr2
    if 0 <= index < 3:
        s['sample'] = dict(world=tr['world'], history=tr['callers'][0][:25], faults=tr['faults'],
                           history_length=len(tr['callers'][0]), stats=st, events=res['events'])
    return s


def aggregate(summaries, tier):
    tot = dict(ops=0, first=0, warm_checked=0, warm_after_other_kind=0, warm_after_failure=0, failed=0,
               faulted=0, warm_by_membership=0, regen_after_failure=0)
    events = dict(G=0, K=0, W=0, G2=0)
    faults, matrix = {}, {}
    digests_nt = set()
    steps = desc = 0
    samples, first_events = [], []
    for s in summaries:
        for k in tot:
            tot[k] += s['stats'].get(k, 0)
        for k in events:
            events[k] += s['events'].get(k, 0)
        for k, v in s['faults_fired'].items():
            faults[k] = faults.get(k, 0) + v
        for k, v in s['matrix'].items():
            matrix[k] = matrix.get(k, 0) + v
        if s['nontrivial']:
            digests_nt.add(s['digest'])
        steps += s['steps']
        desc += s['descriptors']
        if 'sample' in s:
            samples.append(s['sample'])
        if len(first_events) < 6:
            first_events.extend(s['stats'].get('first_events', [])[:2])
    kinds = sorted({k.split('|')[1] for k in matrix})
    opsn = sorted({k.split('|')[0] for k in matrix})
    return dict(
        evaluations=len(summaries),
        distinct_nontrivial=len(digests_nt),
        rule='one evaluation = one sequential call history (15-60 calls in the quick tier, up to 150 in the thorough '
             'tier) over a pool of 4-9 (operator, key pattern) descriptors on 1-2 algebras, coefficient kinds cycling '
             'through int/float/Fraction/ndarray/sympy/mixed, with failing and fault-carrying calls; non-trivial = the '
             'history contains at least one warm call checked after the same descriptor succeeded with a different '
             'coefficient kind, or after a failed/interrupted generation of the same descriptor; distinct = distinct '
             'event-log digest',
        samples=samples[:3],
        calls=tot['ops'], first_calls=tot['first'], warm_calls_checked=tot['warm_checked'],
        warm_calls_after_a_different_coefficient_kind=tot['warm_after_other_kind'],
        warm_calls_after_failed_generation=tot['warm_after_failure'],
        warm_calls_known_only_through_membership=tot['warm_by_membership'],
        regenerations_after_failure=tot['regen_after_failure'],
        failed_calls=tot['failed'], fault_carrying_calls=tot['faulted'],
        generation_events_seen=events, events_of_some_first_calls=first_events[:6],
        faults_fired=faults, distinct_descriptors=desc, scheduler_steps=steps,
        warm_call_matrix_operator_x_coefficient_kind=dict(operators=len(opsn), kinds=kinds,
                                                         cells_covered=len(matrix), cells=matrix),
        instrumented_code_objects=max([s.get('ncodes') or 0 for s in summaries] or [0]),
        components=dict(real=['kingdon.* from /repo working tree (unmodified)', 'sympy', 'numpy'],
                        stub=['JIT wrapper (counting, semantics-preserving stub)']),
    )


def post_check(cov):
    """Instrumentation must not be blind: first calls have to show generation events."""
    ev = cov.get('generation_events_seen', {})
    if cov.get('first_calls', 0) > 20 and (ev.get('G', 0) == 0 or ev.get('K', 0) == 0):
        return f'instrumentation blind: {ev} generation events over {cov.get("first_calls")} first calls'
    return None


def vclass(v):
    return (v['clause'],)


def fails(trace, want=None):
    tr = copy.deepcopy(trace)
    status, res = execute(tr)
    if status != 'ok' or res.get('setup_error') or res.get('abort'):
        return None, res if isinstance(res, dict) else {}
    for v in res['violations']:
        if want is None or vclass(v) == tuple(want):
            res['segments'] = None
            return v, res
    return None, res


def report_violation(summary, seed, index, known, log=print):
    from .minimise import minimise
    trace = summary['trace']
    want = vclass(summary['violations'][0])
    t0 = time.time()
    small, v, res = minimise(trace, want, fails, budget_s=float(os.environ.get('VERIF_MINIMISE_S', '240')), log=log)
    if v is None:
        return 'unreproducible', None, 'explicit trace did not reproduce'
    log(f'minimised in {time.time() - t0:.0f}s to {len(small["callers"][0])} calls, {len(small.get("faults", []))} faults')
    ok = 0
    for _ in range(2):
        v2, res2 = fails(small, want)
        if v2 is not None and res2['digest'] == res['digest']:
            ok += 1
    if ok < 2:
        return 'unreproducible', None, f'replayed {ok}/2 times'
    small['violation'] = v
    small['digest'] = res['digest']
    os.makedirs(os.path.join(VERIF, 'replays'), exist_ok=True)
    path = os.path.join(VERIF, 'replays', f'C10-{seed}-{index}.json')
    with open(path, 'w') as f:
        json.dump(small, f, indent=1, default=str)
    d = v.get('desc') or {}
    sig = f"{v['clause']}:{d.get('kind')}:{d.get('op') or d.get('fn')}"
    for k in known.get('open', []):
        if k.get('property') == 'C10' and k.get('signature') == sig:
            return 'known', path, f"{k.get('what', sig)} (replay {path})"
    return 'violation', path, dict(clause=v['clause'], expected=v.get('expected'), got=v.get('got'),
                                   op=v.get('desc'), signature=sig, replay=path)


def replay_file(path, log=print):
    with open(path) as f:
        tr = json.load(f)
    tr['explicit'] = True
    want = vclass(tr['violation']) if tr.get('violation') else None
    v, res = fails(tr, want)
    return v, res, tr
