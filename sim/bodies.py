"""Fixed library of user functions that the simulated callers register with an algebra.

Every entry is built by a factory that receives `ns`, the per-algebra mapping
{body id -> registered object}, so that registered functions can call other registered functions.
`pyname` is the function's __name__ (which kingdon uses to derive the generated function name);
several entries share a __name__ on purpose, and some use names that coincide with kingdon's own
generated prefixes (`div`, `sqrt`, `codegen_gp`).
"""


def _named(name, f):
    f.__name__ = name
    f.__qualname__ = name
    return f


LIB = {}


def _reg(bid, nargs, pyname, deps=(), raises=False, selfref=False):
    def deco(factory):
        LIB[bid] = dict(id=bid, nargs=nargs, pyname=pyname, deps=tuple(deps), factory=factory, raises=raises,
                        selfref=selfref)
        return factory
    return deco


@_reg('gp', 2, 'f')
def _(ns):
    return _named('f', lambda x, y: x * y)


@_reg('mix', 2, 'f')
def _(ns):
    return _named('f', lambda x, y: (x * y + y) | x)


@_reg('sym2', 2, 'g')
def _(ns):
    return _named('g', lambda x, y: x * y + y * x)


@_reg('sw', 2, 'sw2')
def _(ns):
    return _named('sw2', lambda x, y: x >> y)


@_reg('div', 2, 'div')
def _(ns):
    return _named('div', lambda x, y: x ^ y)


@_reg('divmix', 2, 'h', deps=('div',))
def _(ns):
    return _named('h', lambda x, y: x / y + ns['div'](x, y))


@_reg('nest', 2, 'nest', deps=('gp',))
def _(ns):
    return _named('nest', lambda x, y: ns['gp'](x, y) + x)


@_reg('nest2', 2, 'nest', deps=('mix', 'sym2'))
def _(ns):
    return _named('nest', lambda x, y: ns['mix'](x, y) - ns['sym2'](y, x))


@_reg('nsq', 1, 'nsq')
def _(ns):
    return _named('nsq', lambda x: x * ~x)


@_reg('invx', 1, 'invx')
def _(ns):
    return _named('invx', lambda x: x.inv() * x)


@_reg('cgp', 2, 'codegen_gp')
def _(ns):
    return _named('codegen_gp', lambda x, y: x ^ y)


@_reg('sqrtname', 1, 'sqrt')
def _(ns):
    return _named('sqrt', lambda x: x * x)


@_reg('bad', 2, 'f', raises=True)
def _(ns):
    def f(x, y):
        z = x * y
        raise ValueError('registered body fails half-way through tracing')
    return _named('f', f)


@_reg('scal', 2, 'lin')
def _(ns):
    return _named('lin', lambda x, y: 2 * x - y * 3)


@_reg('grade', 2, 'gr')
def _(ns):
    return _named('gr', lambda x, y: (x * y).grade(1) + (y * x).grade(1))


@_reg('three', 3, 'tri')
def _(ns):
    return _named('tri', lambda x, y, z: (x * y) * z + z)


@_reg('rev', 1, 'g')
def _(ns):
    return _named('g', lambda x: ~x + x)


@_reg('projrp', 2, 'pr')
def _(ns):
    return _named('pr', lambda x, y: (x @ y) + (x & y))


@_reg('peel', 1, 'peel', selfref=True)
def _(ns):
    # calls *itself* on another key pattern (the element without its highest grade) while it is being generated:
    # re-entrant generation on one and the same registered object
    def peel(x):
        gs = sorted({bin(k).count('1') for k in x.keys()})
        if len(gs) <= 1:
            return x * x
        return ns['peel'](x.grade(*gs[:-1])) + x
    return _named('peel', peel)


def closure(bids):
    """bids plus all their dependencies, dependencies first, stable order."""
    out = []

    def visit(b):
        for d in LIB[b]['deps']:
            visit(d)
        if b not in out:
            out.append(b)
    for b in bids:
        visit(b)
    return out
