"""Seeded generation of C20 worlds: algebra, scene tree, options, drag script, channel behaviour."""
from .c20 import ref_tables, effective_top

import os
DRAG_TOP_ARRAY = os.environ.get('VERIF_C20_DRAG_TOP_ARRAY', '1') == '1'
COLOURS = [0xD0FFE1, 0x224488, 0x00AA88, 0xFF0000, 0]


def gen_value(rng, intonly=False, allow_zero=False):
    if allow_zero and rng.random() < 0.15:
        return 0 if intonly or rng.random() < 0.5 else 0.0
    if intonly or rng.random() < 0.4:
        return rng.choice([-3, -2, -1, 1, 2, 3, 4, 5])
    return rng.choice([-2.5, -1.25, -0.5, 0.1, 0.3, 0.75, 1.5, 2.2, 3.7])


def gen_mv(rng, d, canon, pga_point_grade=None, allow_array=True, arm=None):
    n = 2 ** d
    u = rng.random()
    m = {}
    if pga_point_grade is not None and u < 0.5:
        keys = [k for k in canon if bin(k).count('1') == pga_point_grade]
        m['layout'] = 'point'
    elif u < 0.55:
        keys = sorted(rng.sample(canon, rng.randint(1, min(n, 4))), key=canon.index)
        m['layout'] = 'sparse'
    elif u < 0.72:
        keys = rng.sample(canon, rng.randint(2, min(n, 5))) if n >= 2 else list(canon)
        m['layout'] = 'perm'
    elif u < 0.86:
        keys = list(canon)
        m['layout'] = 'dense-canon'
    else:
        keys = list(range(n))
        m['layout'] = 'dense-bin'
    m['keys'] = keys
    v = rng.random()
    if v < 0.55:
        m['cont'] = 'list'
        m['vals'] = [gen_value(rng) for _ in keys]
    elif v < 0.85:
        m['cont'] = 'nd'
        # mostly float64; sometimes single precision or a byte-swapped array (what np.frombuffer/np.fromfile and
        # FITS/netCDF readers hand out)
        m['dtype'] = 'float64' if rng.random() < 0.75 else rng.choice(['float32', '>f8', '>f4'])
        m['vals'] = [float(gen_value(rng)) for _ in keys]
    else:
        m['cont'] = 'nd'
        m['dtype'] = 'int64'
        m['vals'] = [gen_value(rng, intonly=True) for _ in keys]
    if m['cont'] == 'nd' and m['dtype'] == 'float64' and rng.random() < 0.25:
        m['view'] = rng.choice(['strided', 'row'])        # the coefficient array is a view into a larger array
    if m['cont'] == 'list' and rng.random() < 0.15:
        m['npscalars'] = True                             # list of numpy scalars (what numpy arithmetic leaves behind)
    if allow_array and rng.random() < 0.15:
        shape = rng.choice([[2], [3], [2, 2], [1], [1, 2]])
        size = 1
        for s in shape:
            size *= s
        m['shape'] = shape
        m['dtype'] = 'float64' if rng.random() < 0.8 else '>f8'
        m['cont'] = rng.choice(['list', 'nd'])

        def arr():
            flat = [float(gen_value(rng)) for _ in range(size)]
            if len(shape) == 1:
                return flat
            return [flat[i * shape[1]:(i + 1) * shape[1]] for i in range(shape[0])]
        m['vals'] = [arr() for _ in keys]
    m['ctor'] = 'fkv' if rng.random() < 0.7 or m['layout'] == 'perm' else ('kv' if m['layout'] != 'dense-canon' else rng.choice(['kv', 'dense']))
    if m.get('shape') or m.get('cont') == 'nd':
        m['ctor'] = 'fkv'
    return m


def gen_node(rng, nmv, scalar_ids, depth, p_call=0.2):
    u = rng.random()
    if u < 0.12:
        return {'t': 'int', 'v': rng.choice(COLOURS)}
    if u < 0.2:
        return {'t': 'str', 'v': rng.choice(['A', 'B', 'label', ''])}
    if u < 0.2 + p_call and depth < 3:
        return {'t': 'call', 'of': gen_node(rng, nmv, scalar_ids, depth + 1, p_call / 2)}
    if u < 0.5 and depth < 3:
        k = rng.randint(0, 3)
        return {'t': rng.choice(['list', 'list', 'tuple']), 'of': [gen_node(rng, nmv, scalar_ids, depth + 1, p_call) for _ in range(k)]}
    if u < 0.6 and len(scalar_ids) >= 2:
        a, b = rng.sample(scalar_ids, 2)
        if rng.random() < 0.2:
            # a callable that fails for some positions of its point
            return {'t': 'depx', 'op': 'inv', 'a': a}
        return {'t': 'dep', 'op': rng.choice(['rp', 'op', 'add', 'gp', 'sub']), 'a': a, 'b': b}
    return {'t': 'mv', 'id': rng.randrange(nmv)}


def gen_trace20(rng, tier='quick'):
    d = rng.choices([1, 2, 3, 4], weights=[0.08, 0.37, 0.40, 0.15])[0]
    r = rng.choice([0, 0, 1, 1, 2]) if d >= 2 else rng.choice([0, 1])
    r = min(r, d)
    q = min(rng.choice([0, 0, 0, 1]), d - r)
    p = d - r - q
    sig, canon, _ = ref_tables(p, q, r)
    pga = (r == 1 and d in (3, 4))
    big = tier == 'thorough' and rng.random() < 0.3
    nmv = rng.randint(2, 6) if not big else rng.randint(4, 9)
    mvs = [gen_mv(rng, d, canon, pga_point_grade=(d - 1) if pga else None) for _ in range(nmv)]
    scalar_ids = [i for i, m in enumerate(mvs) if not m.get('shape')]
    n_top = rng.randint(1, 7) if not big else rng.randint(4, 12)
    scene = [gen_node(rng, nmv, scalar_ids, 0) for _ in range(n_top)]
    # make sure some plain multivectors sit at the top level (they are the draggable points)
    for _ in range(rng.randint(0, 3)):
        if scalar_ids:
            scene.insert(rng.randrange(len(scene) + 1), {'t': 'mv', 'id': rng.choice(scalar_ids)})
    options = {}
    if rng.random() < 0.35:
        options['animate'] = 1
    if rng.random() < 0.3:
        options['lineWidth'] = 3
        options['grid'] = 1
    if rng.random() < 0.2:
        options.update(rng.choice([{'labels': 1, 'scale': 1.5}, {'width': '400px', 'conformal': False},
                                   {'h': 0.3, 'p': -0.2, 'pointRadius': 2}, {'colors': [1, 2, 3], 'style': {'fill': 'none'}}]))
    if rng.random() < 0.25 and scalar_ids:
        options['camera'] = rng.choice(scalar_ids)

    def is_point(n):
        if n['t'] != 'mv' or mvs[n['id']].get('shape'):
            return False
        if pga:
            return sorted({bin(k).count('1') for k in mvs[n['id']]['keys']}) == [d - 1]
        return True
    def to_array(n):
        while n['t'] == 'call':
            n = n['of']
        return n['t'] == 'mv' and bool(mvs[n['id']].get('shape'))
    top_array = any(to_array(n) for n in effective_top(scene))
    from .c20 import expanded_top
    etop = expanded_top(scene, mvs)
    # draggable points by their place in the decoded subjects; int64-backed points are never dragged by the
    # simulated user (an integer array cannot hold the reported float in place)
    places = [j for j, n in enumerate(etop) if is_point(n) and mvs[n['id']].get('dtype') != 'int64']
    drags = []
    algebra = dict(p=p, q=q, r=r)
    if d >= 2 and rng.random() < 0.2:
        # Algebra(signature=[...]): the same squares in an order of the user's choosing
        order = list(sig)
        rng.shuffle(order)
        algebra['signature'] = order
    world = dict(algebra=algebra, mvs=mvs, scene=scene, options=options,
                 single_callable=rng.choice([False] * 8 + ['lazy', 'eager']),
                 latency=dict(base=rng.choice([0.001, 0.004]), jitter=rng.choice([0.0, 0.01, 0.06]), p_slow=rng.choice([0, 0.1, 0.3])),
                 p_dup=rng.choice([0, 0, 0.1, 0.3]), float32=rng.random() < 0.8,
                 rerender_on_change=rng.random() < 0.5, max_reports=rng.choice([10, 25, 40]),
                 p_short=rng.choice([0, 0, 0, 0.15]))
    if top_array:
        world['allow_misaligned'] = True       # (kept as a label: worlds with an expanded top-level subject)
    if places and rng.random() < 0.8:
        t = 0.05
        for _ in range(rng.randint(1, 7) if not big else rng.randint(5, 15)):
            t += rng.choice([0.001, 0.01, 0.05, 0.2])
            place = rng.choice(places)
            mv = mvs[etop[place]['id']]
            npos = rng.randint(1, 3)
            changes = []
            for _ in range(npos):
                if rng.random() < 0.8:
                    pos = canon.index(rng.choice(mv['keys']))
                else:
                    pos = rng.randrange(2 ** d)
                changes.append([pos, gen_value(rng, allow_zero=True)])
            drags.append(dict(t=round(t, 4), place=place, changes=changes))
        world['horizon'] = t + 0.5
    world['drags'] = drags
    cand = [i for i in scalar_ids if mvs[i]['keys']]
    if options.get('animate') and cand and rng.random() < 0.5:
        ksets = []
        for _ in range(rng.randint(1, 3)):
            i = rng.choice(cand)
            m = mvs[i]
            pos = rng.randrange(len(m['keys']))
            if m['cont'] == 'nd':
                val = gen_value(rng, intonly=True) if m.get('dtype') == 'int64' else float(gen_value(rng))
            else:
                val = gen_value(rng)
            ks = dict(t=round(rng.uniform(0.02, world.get('horizon', 0.6)), 4), mv=i, pos=pos, val=val)
            if drags and rng.random() < 0.6:
                ks['after_report'] = True
                ks['t'] = round(rng.choice(drags)['t'] - 0.0005, 4)
            ksets.append(ks)
        world['ksets'] = ksets
    return dict(property='C20', world=world, net_seed=rng.getrandbits(32))
