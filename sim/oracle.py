"""The oracle C09 names: the same call on a freshly created algebra.

Each query is answered by a child forked from the worker process, which has imported kingdon but
has never created an Algebra: the child sees import-time state only ("pristine"), builds a fresh
algebra from the specification, rebuilds the operands from their recipes, performs the one call and
sends the outcome back as a pickle.  Answers are memoised per worker by the full description of the
query.
"""
import json
import time
import warnings

from . import bodies
from .ops import World, perform_raw, outcome_of
from .proc import fork_call

TIMEOUT_S = 30.0


class Oracle:
    def __init__(self):
        self.memo = {}
        self.cost = {}
        self.last_cost = 0.0
        self.stats = dict(pristine=0, memo_hits=0, timeouts=0, errors=0, seconds=0.0)

    def expected(self, spec, op, limit=None, timeout=TIMEOUT_S):
        """Outcome of `op` on a fresh algebra.  self.last_cost = number of kingdon source lines the
        call executed there (a deterministic cost measure); if it exceeds `limit` the evaluation is
        cut short and the answer is ('too-expensive',)."""
        key = memo_key(spec, op) + f'|{limit}' 
        if key in self.memo:
            self.stats['memo_hits'] += 1
            self.last_cost = self.cost.get(key, 0.0)
            return self.memo[key]
        t0 = time.time()
        out, lines = eval_pristine(spec, op, timeout=timeout, limit=limit)
        self.last_cost = self.cost[key] = lines
        self.stats['seconds'] += time.time() - t0
        self.stats['pristine'] += 1
        if out[0] == 'timeout':
            self.stats['timeouts'] += 1
        if out[0] == 'harness-error':
            self.stats['errors'] += 1
        self.memo[key] = out
        return out


def _refs(r, sh, nested):
    """Collect shared-operand indices and nested ops referenced by recipe r."""
    k = r.get('k')
    if k == 'sh':
        sh.add(r['i'])
    elif k in ('call0', 'other', 'same'):
        _refs(r['of'], sh, nested)
    elif k == 'list':
        for x in r['of']:
            _refs(x, sh, nested)
    elif k in ('opres', 'prev'):
        nested.append(r['op'])


def needed(spec, op):
    """(algebra indices, body ids per algebra, shared indices) an operation depends on."""
    algs, regs, shared = set(), set(), set()
    todo = [op]
    while todo:
        o = todo.pop()
        algs.add(o['alg'])
        if o['kind'] in ('reg', 'register'):
            for b in bodies.closure([o['fn']]):
                regs.add((o['alg'], b))
        sh, nested = set(), []
        for r in o.get('args', []):
            if r.get('k') == 'other':
                algs.add(r['alg'])
            _refs(r, sh, nested)
        for i in sh:
            if i not in shared:
                shared.add(i)
                s = spec['shared'][i]
                algs.add(s['alg'])
                sh2, nested2 = set(), []
                _refs(s['recipe'], sh2, nested2)
                todo.extend(nested2)
                for j in sh2:
                    if j not in shared:
                        shared.add(j)
        todo.extend(nested)
    return algs, regs, shared


def memo_key(spec, op):
    algs, regs, shared = needed(spec, op)
    regspecs = [r for r in spec.get('registered', []) if (r['alg'], r['body']) in regs]
    desc = dict(
        algebras={i: spec['algebras'][i] for i in sorted(algs)},
        registered=regspecs,
        shared={i: spec['shared'][i] for i in sorted(shared)},
        warn=spec.get('warn_as_error', False),
        op=op,
    )
    return json.dumps(desc, sort_keys=True, default=str)


class TooExpensive(BaseException):
    pass


def evaluate_fresh(spec, op, limit=None):
    """Build a fresh world and perform op on it; used inside the pristine child.  Returns
    (outcome, number of kingdon lines executed by the call)."""
    import sys
    from . import engine
    if spec.get('warn_as_error'):
        warnings.simplefilter('error')
    else:
        warnings.simplefilter('ignore')
    algs, _, _ = needed(spec, op)
    world = World(spec, only_alg=None if len(algs) > 1 else op['alg'])
    n = [0]
    mon = sys.monitoring
    codes = []
    if limit is not None:
        skip = () if spec.get('instr_poly') else ('polynomial.py',)
        codes = [c for c in engine.discover_code() if not c.co_filename.endswith(skip)] if skip else engine.discover_code()
        mon.use_tool_id(engine.TOOL, 'kingdon-verif-cost')

        def cb(code, line):
            n[0] += 1
            if n[0] > limit:
                raise TooExpensive()
        mon.register_callback(engine.TOOL, mon.events.LINE, cb)
        for c in codes:
            mon.set_local_events(engine.TOOL, c, mon.events.LINE)
    try:
        out, _exc = outcome_of(lambda: perform_raw(world, op))
    finally:
        if limit is not None:
            for c in codes:
                mon.set_local_events(engine.TOOL, c, 0)
            mon.register_callback(engine.TOOL, mon.events.LINE, None)
            mon.free_tool_id(engine.TOOL)
    if out == ('exc', 'TooExpensive'):
        out = ('too-expensive',)
    return out, n[0]


def eval_pristine(spec, op, timeout=TIMEOUT_S, limit=None):
    status, val = fork_call(lambda: evaluate_fresh(spec, op, limit), timeout)
    if status == 'ok':
        return val
    if status == 'timeout':
        return ('timeout',), 0
    return ('harness-error', f'{status}: {val}'), 0
