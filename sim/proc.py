"""Running a function in a forked child with a wall-clock limit; results come back by pickle."""
import faulthandler
import os
import pickle
import select
import signal
import sys
import time
import traceback


def fork_call(fn, timeout, watchdog=None):
    """Returns ('ok', value) | ('error', traceback text) | ('timeout', None) | ('died', status)."""
    r, w = os.pipe()
    sys.stdout.flush()
    sys.stderr.flush()
    pid = os.fork()
    if pid == 0:
        code = 0
        try:
            os.close(r)
            if watchdog:
                faulthandler.dump_traceback_later(watchdog, exit=True)
            try:
                data = pickle.dumps(('ok', fn()), protocol=4)
            except BaseException:
                data = pickle.dumps(('error', traceback.format_exc()), protocol=4)
            with os.fdopen(w, 'wb') as f:
                f.write(data)
        except BaseException:
            code = 3
        finally:
            os._exit(code)
    os.close(w)
    chunks = []
    deadline = time.time() + timeout
    timed_out = False
    while True:
        left = deadline - time.time()
        if left <= 0:
            timed_out = True
            break
        rd, _, _ = select.select([r], [], [], left)
        if not rd:
            timed_out = True
            break
        b = os.read(r, 1 << 16)
        if not b:
            break
        chunks.append(b)
    os.close(r)
    if timed_out:
        try:
            os.kill(pid, signal.SIGKILL)
        except ProcessLookupError:
            pass
        os.waitpid(pid, 0)
        return ('timeout', None)
    _, status = os.waitpid(pid, 0)
    if not chunks:
        return ('died', status)
    try:
        return pickle.loads(b''.join(chunks))
    except Exception as e:
        return ('error', f'unpicklable answer: {type(e).__name__}: {e}')
