"""Shrinking a failing C09/C10 run description while the same violation class persists.

Order (DESIGN.md 2.7): drop whole callers; sequential schedule; ddmin over each caller's
operations; drop faults; shrink operands; options to defaults; merge schedule segments.
Every candidate is executed in a fresh forked process.  After each successful reduction the
schedule actually executed by that run replaces the recorded one, so the trace stays exact.
"""
import copy
import time


def _adopt(trace, res):
    t = copy.deepcopy(trace)
    if res is not None and res.get('segments') is not None:
        t['schedule'] = res['segments']
    return t


def _drop_ops(trace, c, idxs):
    t = copy.deepcopy(trace)
    keep = [i for i in range(len(t['callers'][c])) if i not in idxs]
    remap = {old: new for new, old in enumerate(keep)}
    t['callers'][c] = [t['callers'][c][i] for i in keep]
    # operands that are results of earlier operations: follow the renumbering, or become stand-alone
    for op in t['callers'][c]:
        for a in op.get('args', []):
            if a.get('k') == 'prev':
                if a['i'] in remap:
                    a['i'] = remap[a['i']]
                else:
                    a['k'] = 'opres'
                    a.pop('i', None)
    nf = []
    for f in t.get('faults', []):
        if f['caller'] != c:
            nf.append(f)
        elif f['op'] in remap:
            f = dict(f)
            f['op'] = remap[f['op']]
            nf.append(f)
    t['faults'] = nf
    return t


def _drop_caller(trace, c):
    t = copy.deepcopy(trace)
    del t['callers'][c]
    nf = []
    for f in t.get('faults', []):
        if f['caller'] == c:
            continue
        f = dict(f)
        if f['caller'] > c:
            f['caller'] -= 1
        nf.append(f)
    t['faults'] = nf
    if t.get('schedule'):
        t['schedule'] = [[s[0] - (1 if s[0] > c else 0)] + list(s[1:]) for s in t['schedule'] if s[0] != c]
    return t


def minimise(trace, want, fails, budget_s=240, log=print):
    t_end = time.time() + budget_s
    tries = [0]

    def attempt(cand):
        if time.time() > t_end:
            return None
        tries[0] += 1
        v, res = fails(cand, want)
        if v is None:
            return None
        return _adopt(cand, res), v, res

    base = attempt(trace)
    if base is None:
        # not reproducible from the explicit trace: return as is, the caller reports that
        return trace, None, {'digest': None}
    cur, v, res = base

    def accept(r):
        nonlocal cur, v, res
        cur, v, res = r

    # 1. drop whole callers
    c = len(cur['callers']) - 1
    while c >= 0 and len(cur['callers']) > 1:
        r = attempt(_drop_caller(cur, c))
        if r:
            accept(r)
        c -= 1
    # 2. sequential schedule (no recorded schedule -> lowest runnable thread id first)
    if len(cur['callers']) > 1:
        cand = copy.deepcopy(cur)
        cand['schedule'] = []
        r = attempt(cand)
        if r:
            accept(r)
    # 3. ddmin over each caller's operations
    for c in range(len(cur['callers'])):
        n = 2
        while len(cur['callers'][c]) >= 1 and time.time() < t_end:
            ops = list(range(len(cur['callers'][c])))
            size = max(1, len(ops) // n)
            chunks = [ops[i:i + size] for i in range(0, len(ops), size)]
            reduced = False
            for ch in chunks:
                if len(ch) == len(ops) and len(cur['callers']) == 1:
                    continue
                r = attempt(_drop_ops(cur, c, set(ch)))
                if r:
                    accept(r)
                    n = max(n - 1, 2)
                    reduced = True
                    break
            if not reduced:
                if size == 1:
                    break
                n = min(n * 2, len(ops))
    # drop callers that became empty
    for c in range(len(cur['callers']) - 1, -1, -1):
        if not cur['callers'][c] and len(cur['callers']) > 1:
            r = attempt(_drop_caller(cur, c))
            if r:
                accept(r)
    # 4. drop faults
    for i in range(len(cur.get('faults', [])) - 1, -1, -1):
        cand = copy.deepcopy(cur)
        del cand['faults'][i]
        r = attempt(cand)
        if r:
            accept(r)
    if cur['world'].get('wrapper_faults'):
        cand = copy.deepcopy(cur)
        cand['world']['wrapper_faults'] = []
        r = attempt(cand)
        if r:
            accept(r)
    for i in range(len(cur.get('faults', []))):
        for newskip in (0, cur['faults'][i]['skip'] // 2):
            if newskip < cur['faults'][i]['skip']:
                cand = copy.deepcopy(cur)
                cand['faults'][i]['skip'] = newskip
                r = attempt(cand)
                if r:
                    accept(r)
                    break
    # 5. world: drop unused registered functions / shared operands / algebras' options
    for key in ('cse', 'graded', 'symbolcls', 'start_index', 'wrapper'):
        for ai in range(len(cur['world']['algebras'])):
            if key in cur['world']['algebras'][ai]:
                cand = copy.deepcopy(cur)
                del cand['world']['algebras'][ai][key]
                r = attempt(cand)
                if r:
                    accept(r)
    for key in ('warn_as_error', 'instr'):
        if cur['world'].get(key):
            cand = copy.deepcopy(cur)
            cand['world'][key] = False
            r = attempt(cand)
            if r:
                accept(r)
    for i in range(len(cur['world'].get('registered', [])) - 1, -1, -1):
        cand = copy.deepcopy(cur)
        del cand['world']['registered'][i]
        r = attempt(cand)
        if r:
            accept(r)
    # 6. shrink operands: simpler recipes and values
    for c in range(len(cur['callers'])):
        for i in range(len(cur['callers'][c])):
            op = cur['callers'][c][i]
            for j, a in enumerate(op.get('args', [])):
                for simpler in _simpler(a):
                    cand = copy.deepcopy(cur)
                    cand['callers'][c][i]['args'][j] = simpler
                    r = attempt(cand)
                    if r:
                        accept(r)
                        break
            if op.get('form') in ('infix', 'alg'):
                cand = copy.deepcopy(cur)
                cand['callers'][c][i]['form'] = 'method'
                r = attempt(cand)
                if r:
                    accept(r)
    # 7. merge schedule segments (ddmin over context switches: collapse whole blocks of segments so that
    #    each thread's steps inside the block become contiguous; the run that still fails supplies the
    #    schedule it actually executed, which replaces the candidate)
    if len(cur['callers']) > 1 and cur.get('schedule'):
        def collapse(block):
            order, tot, fin = [], {}, {}
            for sg in block:
                if sg[0] not in tot:
                    order.append(sg[0])
                    tot[sg[0]] = 0
                tot[sg[0]] += sg[1]
                fin[sg[0]] = sg[2] if len(sg) > 2 else 0
            return [[t_, tot[t_], fin[t_]] for t_ in order]
        chunk = max(2, len(cur['schedule']) // 2)
        while chunk >= 2 and time.time() < t_end:
            segs = cur['schedule']
            progressed = False
            start = 0
            while start < len(segs) and time.time() < t_end:
                block = segs[start:start + chunk]
                col = collapse(block)
                if len(col) < len(block):
                    cand = copy.deepcopy(cur)
                    cand['schedule'] = segs[:start] + col + segs[start + chunk:]
                    r = attempt(cand)
                    if r and len(r[0].get('schedule') or []) < len(segs):
                        accept(r)
                        segs = cur['schedule']
                        progressed = True
                        continue
                start += chunk
            if not progressed or chunk > len(cur['schedule']):
                chunk //= 2
    log(f'minimiser executed {tries[0]} candidate runs')
    return cur, v, res


def _simpler(r):
    k = r.get('k')
    out = []
    if k in ('map', 'kw', 'bl', 'fkv', 'gr', 'dense'):
        pass
    if k == 'kv':
        keys, vals = r['keys'], r['vals']
        if any(not isinstance(v, int) for v in vals):
            out.append({'k': 'kv', 'keys': keys, 'vals': [i + 1 if not (isinstance(v, int) and v == 0) else 0
                                                         for i, v in enumerate(vals)]})
        elif vals != [i + 1 for i in range(len(vals))] and 0 not in vals:
            out.append({'k': 'kv', 'keys': keys, 'vals': [i + 1 for i in range(len(vals))]})
        if len(keys) > 1:
            out.append({'k': 'kv', 'keys': keys[:-1], 'vals': vals[:-1]})
            out.append({'k': 'kv', 'keys': keys[1:], 'vals': vals[1:]})
    if k == 'map' and all(isinstance(x, int) for x in r['keys']):
        out.append({'k': 'kv', 'keys': r['keys'], 'vals': r['vals']})
    if k == 'fkv':
        out.append({'k': 'kv', 'keys': r['keys'], 'vals': r['vals']})
    if k == 'call0':
        out.append(r['of'])
    if k == 'list':
        out.append(r['of'][0])
    return out
