"""Seeded generation of C10 histories: one caller, a small pool of (operator, key patterns)
descriptors that is revisited many times with cycling coefficient kinds."""
import copy

from . import bodies
from .gen import gen_algebra, variant_of, Pool, dim_of, grade, gen_value
from .ops import BINARY_OPS, UNARY_OPS, INFIX, UNARY_INFIX

KINDS = ['int', 'float', 'Fraction', 'nd1', 'nd2', 'sympy', 'mixed', 'ndcont', 'intnd', 'tupcont', 'complex', 'ndconti', 'ndcont2', 'bool', 'npscalar', 'zeros', 'negint', 'symzero']
HEAVY = {'div', 'inv', 'sqrt', 'outertan', 'outerexp', 'outersin', 'outercos', 'proj', 'sw', 'normsq'}
INNER = {
    'sw': [('bin', 'gp', (0, 1)), ('un', 'reverse', (0,))],
    'proj': [('bin', 'ip', (0, 1)), ('un', 'reverse', (1,))],
    'normsq': [('un', 'reverse', (0,)), ('bin', 'gp', (0, 0))],
    'div': [('un', 'conjugate', (1,)), ('un', 'inv', (1,))],
    'inv': [('un', 'conjugate', (0,)), ('un', 'involute', (0,)), ('bin', 'sp', (0, 0))],
    'cp': [('bin', 'gp', (0, 1))],
}


LIGHT_BODIES = {'gp', 'mix', 'sym2', 'scal', 'grade', 'three', 'rev', 'cgp', 'sqrtname', 'nsq', 'div', 'nest', 'nest2', 'peel'}


def sympy_ok(dsc, d):
    """Symbolic coefficients only where sympy.simplify stays cheap (the zero-filter simplifies every
    coefficient of a symbolic result)."""
    if dsc['kind'] == 'meth':
        return dsc['op'] in ('grade', 'dual', 'undual') or d <= 2
    if dsc['kind'] == 'reg':
        return dsc['fn'] in LIGHT_BODIES and d <= 3
    if dsc.get('op') in HEAVY:
        return d <= 2 and dsc.get('op') not in ('outertan', 'sqrt')
    return True


def value_of_kind(rng, kind, j):
    if kind in ('int', 'float', 'Fraction'):
        return gen_value(rng, kind)
    if kind == 'mixed':
        return gen_value(rng, rng.choice(['int', 'float', 'Fraction']))
    if kind == 'nd1':
        return {'nd': [rng.choice([-2.0, -1.0, 0.5, 1.0, 2.0, 3.0]) for _ in range(3)], 'dt': 'float64'}
    if kind == 'nd2':
        return {'nd': [[rng.choice([-1.0, 1.0, 2.0, 0.5]) for _ in range(2)] for _ in range(2)], 'dt': 'float64'}
    if kind == 'intnd':
        return {'nd': [rng.choice([-2, -1, 1, 2, 3]) for _ in range(3)], 'dt': 'int64'}
    if kind == 'sympy':
        return {'s': f's{j}'}
    if kind == 'symzero':
        # symbols next to exact zeros of every spelling (the key pattern is the same, whatever the values)
        if j == 0 or rng.random() < 0.45:
            return {'s': f's{j}'}
        return rng.choice([0, 0, {'f': 0.0}, {'s': '0'}])
    if kind == 'ndcont':
        return gen_value(rng, 'float')
    if kind in ('tupcont', 'ndconti'):
        return gen_value(rng, 'int')
    if kind == 'ndcont2':
        return value_of_kind(rng, 'nd1', j)
    if kind == 'bool':
        return rng.random() < 0.5
    if kind == 'npscalar':
        return {'np': rng.choice([-1.5, 0.5, 2.0, 3.25]), 'dt': rng.choice(['float64', 'float32', 'int64'])} \
            if rng.random() < 0.8 else {'np': 2, 'dt': 'int64'}
    if kind == 'zeros':
        return 0 if rng.random() < 0.6 else rng.choice([{'f': 0.0}, 1, -2])
    if kind == 'negint':
        return rng.choice([-7, -3, -1])
    if kind == 'complex':
        return {'c': [rng.choice([-1.0, 0.5, 2.0]), rng.choice([-2.0, 1.0, 0.5])]}
    raise ValueError(kind)


def fill(rng, shape, kind):
    """Instantiate an operand shape (a recipe without values) with coefficients of one kind."""
    r = copy.deepcopy(shape)
    k = r['k']
    if k == 'same':
        return {'k': 'same', 'of': fill(rng, r['of'], kind)}
    if k == 'call0':
        return {'k': 'call0', 'of': fill(rng, r['of'], kind)}
    if k == 'list':
        return {'k': 'list', 'of': [fill(rng, x, kind) for x in r['of']], 'tuple': r.get('tuple', False)}
    n = r.pop('n', None)
    if k == 'num':
        kk = kind if kind in ('int', 'float', 'Fraction', 'sympy', 'complex', 'bool', 'npscalar', 'zeros', 'negint', 'symzero') else 'float'
        r['v'] = value_of_kind(rng, kk, 9)
        return r
    if k == 'sym':
        return r
    vals = [value_of_kind(rng, kind, j) for j in range(n)]
    if k == 'kw':
        r['items'] = [[name, v] for name, v in zip(r.pop('names'), vals)]
    else:
        r['vals'] = vals
        if kind in ('ndcont', 'ndconti', 'ndcont2') and k in ('kv', 'fkv', 'gr', 'dense'):
            r['cont'] = 'nd'
        if kind == 'tupcont' and k in ('kv', 'fkv', 'gr', 'dense'):
            r['cont'] = 'tuple'
    if k == 'dense' and r.get('zeros'):
        r.pop('zeros')
    return r


def gen_shape(rng, pool, allow_num=True):
    keys, form = pool.pick_keys(rng)
    keys = list(keys)
    if not keys:
        keys = [pool.canon[0]]
    if pool.graded:
        gs = sorted({grade(k) for k in keys})
        keys = [k for k in pool.canon if grade(k) in gs]
        return {'k': 'gr', 'grades': gs, 'n': len(keys)}
    if isinstance(form, tuple) and form[0] == 'dense-canon':
        return {'k': 'dense', 'layout': 'canon', 'n': len(keys)}
    if isinstance(form, tuple) and form[0] == 'dense-bin':
        return {'k': 'dense', 'layout': 'bin', 'n': len(keys)}
    u = rng.random()
    gs_ = sorted({grade(k) for k in keys})
    full_ = [k for k in pool.canon if grade(k) in gs_]
    if keys == full_ and rng.random() < 0.3:
        ctor = {(1,): 'vector', (2,): 'bivector', (0,): 'scalar'}.get(tuple(gs_))
        if ctor and rng.random() < 0.6:
            return {'k': 'gr', 'grades': gs_, 'ctor': ctor, 'n': len(keys)}
        return {'k': 'gr', 'grades': gs_, 'n': len(keys)}
    if u < 0.6:
        return {'k': 'kv', 'keys': keys, 'n': len(keys)}
    if u < 0.7:
        sh = {'k': 'fkv', 'keys': keys, 'n': len(keys)}
        if rng.random() < 0.3:
            sh['keys_as'] = rng.choice(['list', 'list', 'nd'])
        return sh
    if u < 0.8:
        return {'k': 'map', 'keys': keys, 'n': len(keys)}
    if u < 0.9:
        return {'k': 'kw', 'names': [pool.name[k] for k in keys], 'n': len(keys)}
    if allow_num and u < 0.95:
        return {'k': 'num'}
    return {'k': 'sym', 'name': rng.choice(['x', 'y']), 'keys': keys}


def gen_trace10(rng, tier='quick', crit_names=(), targets=()):
    dims = [1, 2, 3, 4]
    wts = [0.05, 0.45, 0.38, 0.12]
    d = rng.choices(dims, weights=wts)[0]
    algebras = [gen_algebra(rng, d, tier)]
    if rng.random() < 0.3:
        algebras.append(variant_of(rng, algebras[0], tier))
    pools = [Pool(rng, a) for a in algebras]
    light = d >= 4 or any(a.get('symbolcls') == 'sympy' for a in algebras)
    # an equal but distinct algebra object (same options): its multivectors are legal operands of the first
    # algebra's operators and registered functions, and the key patterns are what they are
    want_equal_copy = rng.random() < 0.25

    registered = []
    regs_by_alg = {}
    for ai in range(len(algebras)):
        if rng.random() < 0.6:
            cands = [b for b in bodies.LIB if not (light and b in ('divmix', 'invx', 'sw', 'projrp'))]
            for bid in bodies.closure(rng.sample(cands, rng.randint(1, 3))):
                r = {'alg': ai, 'body': bid}
                if rng.random() < 0.2:
                    r['symbolic'] = True
                if rng.random() < 0.2:
                    r['style'] = 'deco'
                registered.append(r)
            regs_by_alg[ai] = [r['body'] for r in registered if r['alg'] == ai]

    # descriptor pool
    descs = []
    n_desc = rng.randint(4, 9)
    bins = [b for b in BINARY_OPS if not (light and b in ('div', 'proj', 'sw'))]
    uns = [u for u in UNARY_OPS if not (light and u in HEAVY)]
    while len(descs) < n_desc:
        ai = rng.randrange(len(algebras))
        pool = pools[ai]
        u = rng.random()
        if u < 0.5:
            name = rng.choice(bins)
            form = rng.choice(['method', 'infix', 'alg'])
            if form == 'infix' and name not in INFIX:
                form = 'method'
            shapes = [gen_shape(rng, pool, allow_num=False), gen_shape(rng, pool)]
            if rng.random() < 0.08 and name in INFIX:
                shapes[0] = {'k': 'num'}
                form = 'infix'
                if shapes[1]['k'] == 'num':
                    shapes[1] = gen_shape(rng, pool, allow_num=False)
            u2 = rng.random()
            if u2 < 0.06 and shapes[1]['k'] not in ('num',):
                shapes[1] = {'k': 'call0', 'of': shapes[1]}
                form = 'alg'
            elif u2 < 0.12 and shapes[1]['k'] not in ('num',):
                shapes[1] = {'k': 'list', 'of': [shapes[1], gen_shape(rng, pool, allow_num=False)], 'tuple': rng.random() < 0.5}
                form = 'alg'
            d0 = {'alg': ai, 'kind': 'bin', 'op': name, 'form': form, 'shapes': shapes}
            descs.append(d0)
            if rng.random() < 0.25 and shapes[0]['k'] not in ('num', 'call0', 'list'):
                # the same operator and patterns with both operands being one object (x >> x next to x >> y)
                descs.append({'alg': ai, 'kind': 'bin', 'op': name, 'form': form,
                              'shapes': [shapes[0], {'k': 'same', 'of': shapes[0]}]})
            for kind, iname, idx in INNER.get(name, []):
                if rng.random() < 0.5 and all(shapes[j]['k'] not in ('num', 'call0', 'list', 'same') for j in idx):
                    descs.append({'alg': ai, 'kind': kind, 'op': iname, 'form': 'method',
                                  'shapes': [shapes[j] for j in idx]})
        elif u < 0.72:
            name = rng.choice(uns)
            form = rng.choice(['method', 'alg', 'infix'])
            if form == 'infix' and name not in UNARY_INFIX:
                form = 'method'
            shapes = [gen_shape(rng, pool, allow_num=False)]
            descs.append({'alg': ai, 'kind': 'un', 'op': name, 'form': form, 'shapes': shapes})
            for kind, iname, idx in INNER.get(name, []):
                if rng.random() < 0.5:
                    descs.append({'alg': ai, 'kind': kind, 'op': iname, 'form': 'method',
                                  'shapes': [shapes[j] for j in idx]})
        elif u < 0.82:
            name = rng.choice(['norm', 'normalized', 'pow', 'dual', 'undual', 'exp', 'grade', 'deepcopy', 'pickle', 'copy'] if not light
                              else ['dual', 'undual', 'grade', 'exp', 'deepcopy', 'pickle'])
            dd = {'alg': ai, 'kind': 'meth', 'op': name, 'shapes': [gen_shape(rng, pool, allow_num=False)]}
            if name == 'pow':
                dd['params'] = [rng.choice([2, 3, -1, -2])]
            elif name == 'grade':
                dd['params'] = [rng.randrange(pool.d + 1)]
            elif name in ('dual', 'undual'):
                dd['params'] = rng.choice([[], ['polarity'], ['hodge']])
            descs.append(dd)
        elif regs_by_alg.get(ai):
            bid = rng.choice(regs_by_alg[ai])
            shapes = [gen_shape(rng, pool, allow_num=rng.random() < 0.1) for _ in range(bodies.LIB[bid]['nargs'])]
            descs.append({'alg': ai, 'kind': 'reg', 'fn': bid, 'shapes': shapes})
    many = rng.random() < 0.15
    if many:
        # many key patterns on one or two cheap operators, visited in two passes (bounded caches, evictions)
        descs = []
        names = rng.sample(['gp', 'add', 'op', 'ip', 'sub'], 2)
        uname = rng.choice(['neg', 'reverse', 'involute', 'conjugate'])
        ai = 0
        pool = pools[0]
        seen = set()
        for _ in range(rng.randint(12, 45)):
            if rng.random() < 0.8:
                if pool.graded:
                    shapes = [gen_shape(rng, pool, allow_num=False), gen_shape(rng, pool, allow_num=False)]
                else:
                    k1 = sorted(rng.sample(pool.canon, rng.randint(1, min(3, len(pool.canon)))), key=pool.pos.get)
                    k2 = sorted(rng.sample(pool.canon, rng.randint(1, min(3, len(pool.canon)))), key=pool.pos.get)
                    shapes = [{'k': 'kv', 'keys': k1, 'n': len(k1)}, {'k': 'kv', 'keys': k2, 'n': len(k2)}]
                dsc = {'alg': ai, 'kind': 'bin', 'op': rng.choice(names), 'form': 'method', 'shapes': shapes}
            else:
                if pool.graded:
                    shapes = [gen_shape(rng, pool, allow_num=False)]
                else:
                    k1 = sorted(rng.sample(pool.canon, rng.randint(1, min(4, len(pool.canon)))), key=pool.pos.get)
                    shapes = [{'k': 'kv', 'keys': k1, 'n': len(k1)}]
                dsc = {'alg': ai, 'kind': 'un', 'op': uname, 'form': 'method', 'shapes': shapes}
            key = repr(dsc)
            if key not in seen:
                seen.add(key)
                descs.append(dsc)
    for dsc in descs:
        if not sympy_ok(dsc, d):
            def nosym(sh):
                if sh['k'] == 'sym':
                    return {'k': 'kv', 'keys': sh['keys'], 'n': len(sh['keys'])}
                if sh['k'] in ('call0', 'same'):
                    return {'k': sh['k'], 'of': nosym(sh['of'])}
                if sh['k'] == 'list':
                    return dict(sh, of=[nosym(x) for x in sh['of']])
                return sh
            dsc['shapes'] = [nosym(sh) for sh in dsc['shapes']]
    equal_copy = None
    if want_equal_copy:
        equal_copy = len(algebras)
        algebras.append(copy.deepcopy(algebras[0]))
    n_ops = rng.randint(15, 60 if tier == 'quick' else 150)
    kinds_cycle = rng.sample(KINDS, rng.randint(3, len(KINDS)))
    prog = []
    order = None
    if many:
        order = list(range(len(descs))) * 2 + [rng.randrange(len(descs)) for _ in range(10)]
        n_ops = len(order)
    for i in range(n_ops):
        dsc = descs[order[i]] if order is not None else rng.choice(descs)
        kind = rng.choice(kinds_cycle)
        if kind in ('sympy', 'symzero') and not sympy_ok(dsc, d):
            kind = 'int'
        op = {k: v for k, v in dsc.items() if k != 'shapes'}
        op['args'] = [fill(rng, s, kind) for s in dsc['shapes']]
        if equal_copy is not None and dsc['alg'] == 0 and rng.random() < 0.35 and \
                (dsc['kind'] == 'reg' or (dsc['kind'] in ('bin', 'un') and dsc.get('form') == 'alg')):
            op['args'] = [a if a.get('k') in ('num', 'same') else {'k': 'other', 'alg': equal_copy, 'of': a}
                          for a in op['args']]
        prog.append(op)
        if regs_by_alg.get(dsc['alg']) and rng.random() < 0.01:
            prog.append({'alg': dsc['alg'], 'kind': 'register', 'fn': rng.choice(regs_by_alg[dsc['alg']])})
    faults, wrapper_faults = [], []
    if rng.random() < 0.5:
        rate = rng.choice([0.03, 0.08])
        anchors = [None, None] + list(crit_names)
        for i, _ in enumerate(prog):
            if rng.random() < rate:
                if targets and rng.random() < 0.5:
                    q, ln = rng.choice(targets)
                    faults.append({'caller': 0, 'op': i, 'kind': rng.choice(['interrupt', 'alloc_fail']), 'anchor': None,
                                   'skip': 0, 'line': [q, ln], 'nth': rng.choice([1, 1, 1, 2, 3])})
                    continue
                u = rng.random()
                skip = rng.randint(0, 30) if u < 0.55 else rng.randint(30, 400) if u < 0.9 else rng.randint(400, 4000)
                faults.append({'caller': 0, 'op': i, 'kind': rng.choice(['interrupt', 'alloc_fail']),
                               'anchor': rng.choice(anchors) if rng.random() < 0.6 else None, 'skip': skip})
        for ai, a in enumerate(algebras):
            if a.get('wrapper') and rng.random() < 0.3:
                wrapper_faults.append({'alg': ai, 'when': rng.choice(['apply', 'call']), 'at': rng.randint(1, 8)})
    world = dict(algebras=algebras, registered=registered, shared=[], warn_as_error=False,
                 wrapper_faults=wrapper_faults, instr=False)
    return dict(property='C10', world=world, callers=[prog], faults=faults, policy={'kind': 'seq'},
                schedule=None, sched_seed=0)
