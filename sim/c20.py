"""C20: the graph widget as one party of a two-party protocol.

Real: kingdon.graph.GraphWidget (via Algebra.graph) with real traitlets / ipywidgets / anywidget
message handling, driven through widget._handle_msg with protocol-shaped messages.
Stub: the front end (a Python transliteration of kingdon/graph.js: model, decode, encode, canvas.value,
graph_func, change:subjects handler), the user who drags points, and the transport (one FIFO per
direction with seeded latency on a discrete-event clock; the kernel handles one message at a time).

Reference model: for every multivector object of the scene, blade -> coefficient.  A delivered
report for draggable slot i with array V sets, for exactly the blades that object stores,
coefficient := V[canonical index of blade]; nothing else changes.
"""
import heapq
import json
import logging
import random

import numpy as np

FRAME = 0.016


# ------------------------------------------------------------------------------------------ reference tables

def ref_blade_product(a, b, signature):
    """Independent reference for basis-blade products in the default basis: (sign, blade)."""
    sign = 1
    x = a >> 1
    swaps = 0
    while x:
        swaps += bin(x & b).count('1')
        x >>= 1
    if swaps & 1:
        sign = -sign
    common = a & b
    i = 0
    while common:
        if common & 1:
            sign *= signature[i]
        common >>= 1
        i += 1
    return sign, a ^ b


def blade_name(k, d, start_index):
    return 'e' + ''.join(hex(i + start_index)[2:] for i in range(d) if k & (1 << i))


def ref_tables(p, q, r, signature=None):
    """signature, canonical key order and Cayley table of Algebra(p, q, r) (or of Algebra(signature=...), the
    squares of the basis vectors in the order given) in the default basis."""
    d = p + q + r
    if r == 1:
        sig = [0] * r + [1] * p + [-1] * q
        start = 0
    else:
        sig = [1] * p + [-1] * q + [0] * r
        start = 1
    if signature is not None:
        assert sorted(signature) == sorted(sig)
        sig = list(signature)
    names = {k: blade_name(k, d, start) for k in range(2 ** d)}
    canon = sorted(range(2 ** d), key=lambda k: (len(names[k]), names[k]))
    cay = []
    for a in canon:
        row = []
        for b in canon:
            s, c = ref_blade_product(a, b, sig)
            if s == 0:
                row.append('0')
            else:
                n = names[c] if c else '1'
                row.append(('-' if s < 0 else '') + n)
        cay.append(row)
    return sig, canon, cay


# ------------------------------------------------------------------------------------------ front-end stub

class FrontEnd:
    """Transliteration of the model handling in kingdon/graph.js (ganja.js itself is not in the repo)."""

    def __init__(self, world):
        self.world = world
        self.model = {}
        self.canvas_value = None
        self.rendered = False
        self.reports_sent = 0
        self.frames = 0
        self.float32 = world.cfg.get('float32', True)

    # --- what graph.js does ---------------------------------------------------------------
    def to_element(self, o):
        mv = o['mv']
        if isinstance(mv, (bytes, bytearray, memoryview)):
            vals = list(np.frombuffer(bytes(mv), dtype=np.float64))      # new Float64Array(o.mv.buffer)
        else:
            vals = list(mv)
        if 'keys' in o:
            key2idx = self.model['key2idx']
            values = [0] * len(key2idx)
            for j, k in enumerate(o['keys']):
                values[key2idx[str(k)]] = vals[j]                        # JS object keys are strings
            out = values
        else:
            out = vals
        if self.float32:
            out = [float(np.float32(v)) if isinstance(v, (int, float, np.floating, np.integer)) else v for v in out]
        return Element(out)

    def decode(self, x):
        if isinstance(x, dict) and 'mv' in x:
            return self.to_element(x)
        if isinstance(x, list):
            return [self.decode(y) for y in x]
        return x

    def encode(self, x):
        if isinstance(x, Element):
            return {'mv': list(x.v)}
        if isinstance(x, list):
            return [self.encode(y) for y in x]
        return x

    def graph_func(self):
        idxs = self.idxs
        if self.canvas_value is not None and idxs:
            pts = []
            for i in idxs:
                pts.append(self.canvas_value[i] if i < len(self.canvas_value) else None)   # undefined in JS
            new = self.encode(pts)
            if len(new) > 1 and self.world.rng.random() < self.world.cfg.get('p_short', 0.0):
                new = new[:-1]          # short report: the last draggable point is missing
                self.world.stats['short_reports'] = self.world.stats.get('short_reports', 0) + 1
            if new != self.model.get('draggable_points') and self.reports_sent < self.world.cfg.get('max_reports', 40):
                self.model['draggable_points'] = new
                self.world.send_to_kernel({'method': 'update', 'state': {'draggable_points': new},
                                           'buffer_paths': []}, kind='report')
                self.reports_sent += 1
        if self.animate:
            self.world.send_to_kernel({'method': 'custom', 'content': {'type': 'update_mvs'}}, kind='tick')
        subjects = self.decode(self.model.get('subjects', []))
        self.canvas_value = list(subjects)

    # --- life cycle -----------------------------------------------------------------------
    def on_open(self, state):
        self.model = state
        self.idxs = list(state.get('draggable_points_idxs') or [])
        opts = state.get('options') or {}
        self.animate = bool(opts.get('animate'))
        self.camera = self.to_element(opts['camera']) if isinstance(opts.get('camera'), dict) and 'mv' in opts['camera'] else None
        self.rendered = True
        self.graph_func()
        if self.animate:
            self.world.schedule(self.world.now + FRAME, 'frame', None)

    def on_update(self, state):
        changed_subjects = 'subjects' in state and state['subjects'] != self.model.get('subjects')
        self.model.update(state)
        if changed_subjects and not self.animate and self.world.cfg.get('rerender_on_change', True):
            self.graph_func()            # model.on("change:subjects") -> remake -> (assumed) graph_func

    def frame(self):
        self.frames += 1
        self.graph_func()

    def drag(self, slot, changes):
        """The user moves draggable point `slot`: ganja mutates the element in canvas.value in place
        and re-renders."""
        if self.canvas_value is None or slot >= len(self.idxs):
            return False
        i = self.idxs[slot]
        if i >= len(self.canvas_value) or not isinstance(self.canvas_value[i], Element):
            return False
        el = self.canvas_value[i]
        for pos, val in changes:
            if pos < len(el.v):
                el.v[pos] = float(np.float32(val)) if self.float32 else float(val)
        if not self.animate:
            self.graph_func()
        return True


class Element:
    __slots__ = ('v',)

    def __init__(self, v):
        self.v = list(v)

    def __eq__(self, other):
        return isinstance(other, Element) and self.v == other.v

    def __repr__(self):
        return f'Element({self.v})'


# ------------------------------------------------------------------------------------------ the world

class LogCatcher(logging.Handler):
    def __init__(self):
        super().__init__()
        self.records = []

    def emit(self, record):
        self.records.append(record.getMessage() + (' | ' + repr(record.exc_info[1]) if record.exc_info else ''))


class World20:
    def __init__(self, trace):
        self.trace = trace
        self.cfg = trace['world']
        self.rng = random.Random(trace.get('net_seed', 0))
        self.now = 0.0
        self.seq = 0
        self.heap = []
        self.last_deliver = {'k2f': 0.0, 'f2k': 0.0}
        self.violations = []
        self.stats = dict(k2f=0, f2k_report=0, f2k_tick=0, drags=0, drags_applied=0, dup=0, frames=0,
                          kernel_events=0, reports_delivered=0, checks=0, stale_reports=0)
        self.delivered = []
        self.sent_log = []
        self.subjects_version_sent = 0
        self.subjects_version_seen_by_fe = 0
        self._early = []
        self.widget_comm = None

    # ---- discrete-event machinery ---------------------------------------------------------
    def schedule(self, t, kind, payload):
        self.seq += 1
        heapq.heappush(self.heap, (t, self.seq, kind, payload))

    def latency(self, direction):
        lat = self.cfg.get('latency', {'base': 0.002, 'jitter': 0.02})
        if 'script' in self.cfg and self.cfg['script'].get(direction):
            sc = self.cfg['script'][direction]
            return sc.pop(0) if sc else lat['base']
        return lat['base'] + self.rng.random() * lat['jitter'] * (5 if self.rng.random() < lat.get('p_slow', 0.1) else 1)

    def send(self, direction, msg):
        t = max(self.last_deliver[direction], self.now + self.latency(direction))   # FIFO per direction
        self.last_deliver[direction] = t
        self.schedule(t, direction, msg)

    def send_to_kernel(self, data, kind):
        msg = {'content': {'data': json.loads(json.dumps(data))}, 'buffers': [], '_kind': kind,
               '_fe_saw_version': self.subjects_version_seen_by_fe}
        self.send('f2k', msg)
        if kind == 'report' and self.rng.random() < self.cfg.get('p_dup', 0.0):
            self.stats['dup'] += 1
            self.send('f2k', json.loads(json.dumps(msg)))

    # ---- kernel side -------------------------------------------------------------------------
    def build(self):
        import comm
        from comm.base_comm import BaseComm
        from kingdon import Algebra, MultiVector
        world = self

        class CapturingComm(BaseComm):
            def publish_msg(self, msg_type, data=None, metadata=None, buffers=None, **keys):
                world.on_kernel_publish(self, msg_type, data, buffers)
        comm.create_comm = lambda *a, **k: CapturingComm(*a, **k)
        a = self.cfg['algebra']
        self.alg = Algebra(a['p'], a['q'], a['r']) if not a.get('signature') else Algebra(signature=list(a['signature']))
        self.canon = ref_tables(a['p'], a['q'], a['r'], a.get('signature'))[1]       # canonical blade order from the independent reference
        self.cidx = {k: i for i, k in enumerate(self.canon)}
        # scene multivectors
        self.mvs = []
        self.model = []            # reference model: per mv, {blade: value} (array-valued: value = ndarray)
        for m in self.cfg['mvs']:
            keys = tuple(m['keys'])
            if m.get('shape'):
                arr = np.array(m['vals'], dtype=m.get('dtype', 'float64'))      # shape (len(keys), *shape)
                vals = arr if m.get('cont') == 'nd' else [np.array(v, dtype=m.get('dtype', 'float64')) for v in m['vals']]
                ref = {k: np.array(v, dtype='float64') for k, v in zip(keys, m['vals'])}
            else:
                if m.get('cont') == 'nd':
                    vals = np.array(m['vals'], dtype=m.get('dtype', 'float64'))
                    if m.get('view') == 'strided':
                        base = np.zeros(2 * len(vals), dtype=vals.dtype)
                        base[::2] = vals
                        vals = base[::2]                     # non-contiguous view
                    elif m.get('view') == 'row':
                        base = np.zeros((3, len(vals)), dtype=vals.dtype)
                        base[1] = vals
                        vals = base[1]                       # a row of a 2-D array
                    self._bases = getattr(self, '_bases', []) + [vals.base]
                elif m.get('npscalars'):
                    vals = [np.float64(v) if isinstance(v, float) else np.int64(v) for v in m['vals']]
                else:
                    vals = list(m['vals'])
                # the model holds the same kind of number objects as the kernel (numpy scalars and Python numbers
                # fail differently in user callables, e.g. on division by zero)
                ref = {k: v for k, v in zip(keys, vals)}
            how = m.get('ctor', 'fkv')
            if how == 'fkv':
                mv = MultiVector.fromkeysvalues(self.alg, keys, vals)
            elif how == 'kv':
                mv = self.alg.multivector(keys=keys, values=vals)
            else:
                mv = self.alg.multivector(values=vals)          # dense canonical: keys are chosen by kingdon
            self.mvs.append(mv)
            self.model.append(ref)
        self.containers = [mv.values() for mv in self.mvs]
        self.keys0 = [tuple(mv.keys()) for mv in self.mvs]
        subjects = [self.build_node(n) for n in self.cfg['scene']]
        opts = dict(self.cfg.get('options', {}))
        if 'camera' in opts:
            opts['camera'] = self.mvs[opts['camera']]
        self.catcher = LogCatcher()
        logging.getLogger('traitlets').addHandler(self.catcher)
        if self.cfg.get('single_callable') == 'eager':
            # def graph_func(): return [x, y, x & y]   -- dependents computed in the body, on every call
            def fn():
                return [self.build_node(n, eager=True) for n in self.cfg['scene']]
            self.widget = self.alg.graph(fn, **opts)
        elif self.cfg.get('single_callable'):
            fn = (lambda subs: (lambda: subs))(subjects)
            self.widget = self.alg.graph(fn, **opts)
        else:
            self.widget = self.alg.graph(*subjects, **opts)
        self.widget.log.addHandler(self.catcher)
        self.widget.log.propagate = False
        self.widget_comm = self.widget.comm
        # comm_open was published inside the constructor, before the widget's comm was known: deliver it now
        early, self._early = self._early, []
        for c, msg_type, data, buffers in early:
            self.on_kernel_publish(c, msg_type, data, buffers)

    def build_node(self, n, eager=False):
        t = n['t']
        if t in ('int', 'str'):
            return n['v']
        if t == 'mv':
            return self.mvs[n['id']]
        if t == 'list':
            return [self.build_node(x, eager) for x in n['of']]
        if t == 'tuple':
            return tuple(self.build_node(x, eager) for x in n['of'])
        if t == 'call':
            inner = n['of']
            return lambda: self.build_node(inner, eager)
        if t == 'dep':
            a, b, op = self.mvs[n['a']], self.mvs[n['b']], n['op']
            if eager:
                return getattr(a, op)(b)
            return lambda: getattr(a, op)(b)
        if t == 'depx':
            # a dependent callable that fails for some positions of its point (inverse of a null element, ...)
            a, op = self.mvs[n['a']], n['op']
            if eager:
                return getattr(a, op)()
            return lambda: getattr(a, op)()
        raise ValueError(t)

    def on_kernel_publish(self, c, msg_type, data, buffers):
        if self.widget_comm is None:
            self._early.append((c, msg_type, data, buffers))
            return
        if c is not self.widget_comm:
            return
        d = data or {}
        state = d.get('state')
        if msg_type == 'comm_msg' and d.get('method') == 'echo_update':
            return
        payload = self.wire(d, buffers)
        if state is not None and 'subjects' in state:
            self.subjects_version_sent += 1
            payload['_subjects_version'] = self.subjects_version_sent
            self.last_published_subjects = payload['state']['subjects']
        payload['_type'] = msg_type
        self.stats['k2f'] += 1
        self.send('k2f', payload)

    @staticmethod
    def wire(d, buffers):
        """What the front end receives: JSON round trip of the data, binary parts as separate buffers."""
        from ipywidgets.widgets.widget import _put_buffers
        data = json.loads(json.dumps(d, default=_json_default))
        if data.get('state') is not None and buffers:
            _put_buffers(data['state'], data.get('buffer_paths', []), [bytes(b) for b in buffers])
        return data

    def current_wire_state(self, key):
        """The value the kernel would put on the wire for trait `key` right now."""
        from ipywidgets.widgets.widget import _remove_buffers
        st = self.widget.get_state(key=key)
        st, paths, bufs = _remove_buffers(st)
        return self.wire({'state': st, 'buffer_paths': paths}, bufs)['state'][key]

    # ---- expected rendering ------------------------------------------------------------------
    def expected_scene(self):
        """Flattened expected decode of the scene: leaves in depth-first order; each multivector as its
        coefficient on every blade in canonical order (array-valued: one vector per element)."""
        out = []
        nodes = self.cfg['scene']
        for n in nodes:
            self._exp(n, out)
        return out

    def coeff_vectors(self, ref, shape=None):
        n = len(self.canon)
        if shape:
            size = int(np.prod(shape))
            vecs = []
            for e in range(size):
                v = [0.0] * n
                for k, arr in ref.items():
                    v[self.cidx[k]] = float(np.asarray(arr).reshape(-1)[e])
                vecs.append(v)
            return vecs
        v = [0] * n
        for k, val in ref.items():
            v[self.cidx[k]] = val
        return [v]

    def _exp(self, n, out):
        t = n['t']
        if t in ('int', 'str'):
            out.append(n['v'])
        elif t == 'mv':
            for v in self.coeff_vectors(self.model[n['id']], self.cfg['mvs'][n['id']].get('shape')):
                out.append(('mv', v))
        elif t in ('list', 'tuple'):
            for x in n['of']:
                self._exp(x, out)
        elif t == 'call':
            self._exp(n['of'], out)
        elif t == 'depx':
            a = self.model_mv(n['a'])
            r = getattr(a, n['op'])()
            out.append(('mv', self.coeff_vectors(dict(zip(r.keys(), r.values())))[0]))
        elif t == 'dep':
            a = self.model_mv(n['a'])
            b = self.model_mv(n['b'])
            r = getattr(a, n['op'])(b)
            out.append(('mv', self.coeff_vectors(dict(zip(r.keys(), r.values())))[0]))

    def model_mv(self, i):
        """A multivector with the reference model's coefficients and the same kind of container as the original
        (numpy arithmetic and Python arithmetic fail differently, e.g. on division by zero)."""
        from kingdon import MultiVector
        m = self.cfg['mvs'][i]
        keys = tuple(self.model[i])
        vals = list(self.model[i].values())
        if m.get('cont') == 'nd':
            vals = np.array(vals, dtype=m.get('dtype', 'float64'))
        return MultiVector.fromkeysvalues(self.alg, keys, vals)

    def flatten_decoded(self, x, out, fe):
        if isinstance(x, Element):
            out.append(('mv', list(x.v)))
        elif isinstance(x, list):
            for y in x:
                self.flatten_decoded(y, out, fe)
        else:
            out.append(x)
        return out

    @staticmethod
    def same_leaf(a, b):
        if isinstance(a, tuple) and isinstance(b, tuple):
            if len(a[1]) != len(b[1]):
                return False
            return all(_num_eq(x, y) for x, y in zip(a[1], b[1]))
        if isinstance(a, tuple) or isinstance(b, tuple):
            return False
        return a == b and type(a) == type(b)

    # ---- invariants ------------------------------------------------------------------------------
    def violate(self, clause, **kw):
        if not self.violations:
            self.violations.append(dict(clause=clause, t=round(self.now, 4), **kw))

    def apply_kset(self, ks):
        i, j = ks['mv'], ks['pos']
        cont = self.containers[i]
        k = self.keys0[i][j]
        cont[j] = ks['val']
        self.model[i][k] = cont[j]          # an ndarray hands back its own kind of number object
        self.kdirty = True
        self.stats['ksets'] = self.stats.get('ksets', 0) + 1
        if ks.get('after_report'):
            self.stats['ksets_after_report'] = self.stats.get('ksets_after_report', 0) + 1

    def check_kernel(self, where, w3_only=False):
        self.stats['checks'] += 1
        # the scene as it should be rendered now; a user callable may fail for the current positions
        try:
            exp_now = self.expected_scene()
            scene_error = None
        except Exception as e:
            exp_now, scene_error = None, type(e).__name__
        if self.catcher.records:
            if scene_error is not None and scene_error in self.catcher.records[0]:
                # the user's callable raised while the scene was re-evaluated: ipywidgets logs it, the coefficients
                # have been written already and `subjects` keeps its previous value
                self.stats['scene_errors'] = self.stats.get('scene_errors', 0) + 1
                del self.catcher.records[:]
            else:
                self.violate('W3-handler-exception', where=where, got=self.catcher.records[0][:400],
                             expected='the kernel handles every well-formed front-end message')
                return
        # W3: original objects, original containers, exactly the model's coefficients
        for i, mv in enumerate(self.mvs):
            if mv.values() is not self.containers[i]:
                self.violate('W3-not-in-place', where=where, mv=i, expected='same coefficient container object',
                             got='the multivector holds another container')
                return
            if tuple(mv.keys()) != self.keys0[i]:
                self.violate('W3-keys-changed', where=where, mv=i, expected=self.keys0[i], got=tuple(mv.keys()))
                return
            ref = self.model[i]
            for j, k in enumerate(mv.keys()):
                got = mv.values()[j]
                exp = ref[k]
                if not _num_eq(got, exp):
                    self.violate('W3-coefficients', where=where, mv=i, blade=k, expected=_show(exp), got=_show(got))
                    return
        if w3_only:
            return
        # W1: what the kernel would send now, decoded the way the front end decodes it
        fe = FrontEnd(self)
        fe.float32 = False
        fe.model = {'key2idx': self.current_wire_state('key2idx')}
        try:
            subj = self.current_wire_state('subjects')
            dec = self.flatten_decoded(fe.decode(subj), [], fe)
        except Exception as e:
            self.violate('W1-undecodable', where=where, got=f'{type(e).__name__}: {e}', expected='decodable payload')
            return
        if exp_now is not None:
            exp = self.last_good_expected = exp_now
        else:
            exp = self.last_good_expected          # the re-evaluation failed: the previous payload stands
        if exp is None:
            return                                 # the scene cannot be evaluated at all yet
        if len(dec) != len(exp) or not all(self.same_leaf(a, b) for a, b in zip(dec, exp)):
            bad = next((i for i, (a, b) in enumerate(zip(dec, exp)) if not self.same_leaf(a, b)), min(len(dec), len(exp)))
            self.violate('W1-subjects', where=where, leaf=bad,
                         expected=_show(exp[bad]) if bad < len(exp) else f'{len(exp)} leaves',
                         got=_show(dec[bad]) if bad < len(dec) else f'{len(dec)} leaves')
            return
        # W4: what the kernel last put on the wire is its current state (no silent divergence: the front end
        # will see exactly this once the channel has drained, because the channel is FIFO and loss-free)
        pub = getattr(self, 'last_published_subjects', None)
        if pub is None or not _wire_equal(pub, subj):
            self.violate('W4-update-not-published', where=where,
                         expected='the latest subjects state was published to the front end',
                         got='the kernel state changed but the last published subjects are older' if pub is not None
                         else 'subjects were never published')
            return
        opts = self.cfg.get('options', {})
        if where == 'after creation':
            try:
                o = self.current_wire_state('options')
                want = json.loads(json.dumps({k: v for k, v in opts.items() if k != 'camera'}))
                got = {k: o.get(k) for k in want}
                # every option the user gave arrives unchanged (additional defaults would not be a defect)
                if got != want or ('camera' in opts and 'camera' not in o):
                    self.violate('W1-options', where=where, expected=str(want)[:300], got=str(got)[:300])
                    return
            except Exception as e:
                self.violate('W1-options', where=where, got=f'{type(e).__name__}: {e}', expected='options on the wire')
                return
        if 'camera' in opts and where == 'after creation':       # options are sent once, at creation
            try:
                o = self.current_wire_state('options')
                cam = fe.to_element(o['camera'])
                expv = self.coeff_vectors(self.model[opts['camera']])[0]
                if not self.same_leaf(('mv', list(cam.v)), ('mv', expv)):
                    self.violate('W1-camera', where=where, expected=_show(expv), got=_show(cam.v))
            except Exception as e:
                self.violate('W1-camera', where=where, got=f'{type(e).__name__}: {e}', expected='decodable camera')

    def check_tables(self):
        a = self.cfg['algebra']
        sig, canon, cay = ref_tables(a['p'], a['q'], a['r'], a.get('signature'))
        w = self.widget
        k2i = self.current_wire_state('key2idx')
        if self.current_wire_state('signature') != sig:
            self.violate('W2-signature', expected=sig, got=w.signature)
        elif k2i != {str(k): i for i, k in enumerate(canon)}:
            self.violate('W2-key2idx', expected={str(k): i for i, k in enumerate(canon)}, got=k2i)
        elif self.current_wire_state('cayley') != cay:
            got = self.current_wire_state('cayley')
            self.violate('W2-cayley', expected=str(cay)[:300], got=str(got)[:300])

    # ---- the model rule for a delivered report -------------------------------------------------------
    def apply_report_to_model(self, pts):
        idxs = list(self.widget.draggable_points_idxs)
        targets = self.draggable_targets
        for slot, p in enumerate(pts):
            if slot >= len(targets) or p is None:
                continue
            mvid = targets[slot]
            if mvid is None or not isinstance(p, dict) or 'mv' not in p:
                continue
            V = p['mv']
            ref = self.model[mvid]
            intdt = self.cfg['mvs'][mvid].get('cont') == 'nd' and 'int' in str(self.cfg['mvs'][mvid].get('dtype'))
            nddt = None
            if self.cfg['mvs'][mvid].get('cont') == 'nd' and not self.cfg['mvs'][mvid].get('shape'):
                nddt = np.dtype(self.cfg['mvs'][mvid].get('dtype', 'float64'))
                if nddt == np.dtype('float64'):
                    nddt = None
            for k in list(ref):
                ci = self.cidx[k]
                if ci < len(V):
                    # an integer ndarray can only hold the integer part in place (numpy assignment semantics)
                    new = int(V[ci]) if intdt and V[ci] == V[ci] else V[ci]
                    if nddt is not None and not intdt:
                        new = nddt.type(V[ci])      # a float32 array holds the rounded value
                    try:
                        changed = bool(ref[k] != new)
                    except Exception:
                        changed = True
                    if changed:
                        ref[k] = new        # an equal coefficient keeps its object (and its number type)

    # ---- main loop ---------------------------------------------------------------------------------------
    def run(self):
        self.last_good_expected = None
        try:
            self.build()
        except Exception as e:
            import traceback
            tb = traceback.extract_tb(e.__traceback__)
            where = next((f'{fr.filename}:{fr.lineno} in {fr.name}' for fr in reversed(tb) if '/kingdon/' in fr.filename), '?')
            try:
                self.expected_scene()
                user_error = False
            except Exception as e2:
                user_error = type(e2).__name__ == type(e).__name__
            if user_error:
                self.stats['vacuous'] = 1    # a scene callable fails for the initial positions
            else:
                self.violate('W1-payload-exception', expected='Algebra.graph builds the widget and its payload',
                             got=f'{type(e).__name__}: {e} at {where}')
            self.fe = FrontEnd(self)
            return self
        # which world multivector is behind each draggable slot (top-level position -> mv id)
        # Where the front end finds each top-level subject: `draggable_points_idxs.map(i => canvas.value[i])`
        # indexes the *decoded subjects*, in which an array-valued multivector takes one place per element.
        top = expanded_top(self.cfg['scene'], self.cfg['mvs'])
        self.draggable_targets = []
        for j in self.widget.draggable_points_idxs:
            n = top[j] if 0 <= j < len(top) else None
            ok = bool(n) and n['t'] == 'mv' and not self.cfg['mvs'][n['id']].get('shape')
            self.draggable_targets.append(n['id'] if ok else None)
            if bool(n) and n['t'] in ('dep', 'depx'):
                continue        # a computed multivector at the top level: draggable, but not an original object
            if not ok:
                self.violate('W2-draggable-index', expected='every draggable index is the position, in the decoded '
                             'subjects, of a (non array-valued) multivector of the scene',
                             got=f'index {j} -> {n}')
        self.check_tables()
        self.check_kernel('after creation')
        if self.last_good_expected is None and not self.violations:
            self.stats['vacuous'] = 1        # the scene raised at creation on both sides: nothing to simulate
            self.fe = FrontEnd(self)
            return self
        self.fe = FrontEnd(self)
        for d in self.cfg.get('drags', []):
            self.schedule(d['t'], 'drag', d)
        # kernel-side changes: the user's own code assigns a coefficient of a scene multivector in place; the next
        # update_mvs request of an animated scene must publish it.  `after_report` places the change right after
        # the next delivered drag report (between a report and the frame's update request).
        self.armed, self.kdirty = [], False
        for ks in self.cfg.get('ksets', []):
            self.schedule(ks['t'], 'kset', ks)
        horizon = self.cfg.get('horizon', 2.0)
        last_drag = max([d['t'] for d in self.cfg.get('drags', [])] or [0.0])
        events = 0
        quiet_frames = 0
        while self.heap and not self.violations and events < 20000:
            t, _, kind, payload = heapq.heappop(self.heap)
            self.now = t
            events += 1
            if kind == 'k2f':
                self.delivered.append((round(t, 5), 'k2f', payload.get('_type'), payload.get('method')))
                if payload.get('_subjects_version'):
                    self.subjects_version_seen_by_fe = payload['_subjects_version']
                if payload.get('_type') == 'comm_open':
                    self.fe.on_open(payload['state'])
                elif payload.get('method') == 'update':
                    self.fe.on_update(payload['state'])
            elif kind == 'f2k':
                self.stats['kernel_events'] += 1
                k = payload.pop('_kind', '?')
                saw = payload.pop('_fe_saw_version', 0)
                self.delivered.append((round(t, 5), 'f2k', k, None))
                if k == 'report':
                    self.stats['f2k_report'] += 1
                    self.stats['reports_delivered'] += 1
                    if saw < self.subjects_version_sent:
                        self.stats['stale_reports'] += 1
                    pts = payload['content']['data']['state']['draggable_points']
                    # traitlets notifies the observer only when the reported value differs from the trait's current
                    # value: a duplicate report writes nothing (visible once the kernel side changed in between)
                    try:
                        same = bool(self.widget.draggable_points == pts)
                    except Exception:
                        same = False
                    if same:
                        self.stats['reports_unchanged'] = self.stats.get('reports_unchanged', 0) + 1
                    else:
                        self.apply_report_to_model(pts)
                else:
                    self.stats['f2k_tick'] += 1
                    self.kdirty = False         # an update request re-evaluates the whole scene
                self.widget._handle_msg(payload)
                # between a kernel-side change and the next update request only the write-back is judged: a
                # report that does not differ from the previous one re-encodes nothing
                self.check_kernel(f'after delivering {k} at t={t:.4f}', w3_only=self.kdirty)
                if k == 'report' and self.armed:
                    for ks in self.armed:
                        self.apply_kset(ks)
                    self.armed = []
            elif kind == 'kset':
                if payload.get('after_report'):
                    self.armed.append(payload)
                else:
                    self.apply_kset(payload)
            elif kind == 'frame':
                self.stats['frames'] += 1
                self.fe.frame()
                pending = any(e[2] in ('k2f', 'f2k', 'drag') for e in self.heap)
                if t > last_drag and not pending:
                    quiet_frames += 1
                else:
                    quiet_frames = 0
                if quiet_frames < 4 and t < horizon + 1.0:
                    self.schedule(t + FRAME, 'frame', None)
            elif kind == 'drag':
                self.stats['drags'] += 1
                slot = payload.get('slot')
                if 'place' in payload:      # the point at this place of the decoded subjects
                    slot = self.fe.idxs.index(payload['place']) if self.fe.rendered and payload['place'] in self.fe.idxs else None
                if slot is not None and self.fe.rendered and self.fe.drag(slot, payload['changes']):
                    self.stats['drags_applied'] += 1
        if not self.violations:
            self.check_liveness()
        return self

    def check_liveness(self):
        """After the user has stopped and both channels have drained, the front end holds exactly the
        subjects the kernel published last (transport sanity), which W4 has shown to be current."""
        if not self.fe.rendered:
            self.violate('W4-never-rendered', expected='comm_open delivered', got='front end never opened')
            return
        if any(e[2] in ('k2f', 'f2k') for e in self.heap):
            return            # event cap reached with messages in flight: nothing to conclude
        pub = getattr(self, 'last_published_subjects', None)
        if pub is not None and not _wire_equal(self.fe.model.get('subjects'), pub):
            self.violate('W4-front-end-view-stale', expected='front end holds the last published subjects',
                         got='front end model differs after the channels drained')

    def result(self):
        import hashlib
        h = hashlib.blake2b(digest_size=16)
        h.update(repr(self.delivered).encode())
        h.update(repr([[_show(v) for v in m.values()] for m in self.model]).encode())
        return dict(violations=self.violations, stats=self.stats, digest=h.hexdigest(),
                    sim_seconds=round(self.now, 4), delivered=self.delivered[:40],
                    fe_reports=self.fe.reports_sent if hasattr(self, 'fe') else 0,
                    top_array=bool(self.cfg.get('allow_misaligned')))


def _json_default(o):
    """What the Jupyter session serialiser does for numbers that json does not know (numpy scalars)."""
    import numbers
    if isinstance(o, numbers.Integral):
        return int(o)
    if isinstance(o, numbers.Real):
        return float(o)
    raise TypeError(f'Object of type {o.__class__.__name__} is not JSON serializable')


def effective_top(scene):
    """kingdon treats a single callable subject as 'a function returning the subjects'."""
    if len(scene) == 1 and scene[0]['t'] in ('call', 'dep', 'depx'):
        n = scene[0]
        while n['t'] == 'call':
            n = n['of']
        if n['t'] in ('list', 'tuple'):
            return list(n['of'])
        return [n]
    return scene


def expanded_top(scene, mvs):
    """One entry per place in the decoded top-level subjects."""
    out = []
    for n in effective_top(scene):
        m = n
        while m['t'] == 'call':
            m = m['of']
        if m['t'] == 'mv' and mvs[m['id']].get('shape'):
            size = 1
            for x in mvs[m['id']]['shape']:
                size *= x
            out.extend([{'t': 'element', 'of': m['id']}] * size)
        elif n['t'] == 'call' and m['t'] == 'mv':
            out.append({'t': 'callable-mv', 'id': m['id']})     # a callable returning a point is not a point
        else:
            out.append(n)
    return out


def _wire_equal(a, b):
    if isinstance(a, (bytes, bytearray, memoryview)) or isinstance(b, (bytes, bytearray, memoryview)):
        try:
            return bytes(a) == bytes(b)
        except Exception:
            return False
    if isinstance(a, list) and isinstance(b, list):
        return len(a) == len(b) and all(_wire_equal(x, y) for x, y in zip(a, b))
    if isinstance(a, dict) and isinstance(b, dict):
        return a.keys() == b.keys() and all(_wire_equal(a[k], b[k]) for k in a)
    if isinstance(a, (int, float)) and isinstance(b, (int, float)) and not isinstance(a, bool) and not isinstance(b, bool):
        return a == b or (a != a and b != b)       # JSON / JS numbers: 4 and 4.0 are the same coefficient
    return a == b and type(a) == type(b)


def _num_eq(a, b):
    try:
        if isinstance(a, np.ndarray) or isinstance(b, np.ndarray):
            return bool(np.array_equal(np.asarray(a, dtype='float64'), np.asarray(b, dtype='float64')))
        fa, fb = float(a), float(b)
        return fa == fb or (fa != fa and fb != fb)
    except Exception:
        return a == b


def _show(v):
    if isinstance(v, tuple) and len(v) == 2 and v[0] == 'mv':
        return 'mv' + repr([_show(x) for x in v[1]])
    if isinstance(v, np.ndarray):
        return repr(v.tolist())
    if isinstance(v, (np.floating, np.integer)):
        return repr(v.item())
    if isinstance(v, list):
        return repr([_show(x) for x in v])
    return repr(v)
