"""Entry point: python -m sim.main <C09|C10|C20> [--tier quick|thorough] [--seed N] [--replay FILE]"""
import argparse
import importlib
import json
import os
import sys
import time

from . import engine

REPO = os.environ.get('VERIF_REPO', '/repo')

TIERS = {
    # property: tier: (budget seconds, max runs, self-test runs)
    'C09': {'quick': (75, 100000, 12), 'thorough': (1500, 10 ** 7, 40)},
    'C10': {'quick': (50, 100000, 12), 'thorough': (800, 10 ** 7, 40)},
    'C20': {'quick': (40, 100000, 12), 'thorough': (500, 10 ** 7, 40)},
}
DEFAULT_SEED = {'quick': 20260927, 'thorough': 20260928}


def main(argv=None):
    ap = argparse.ArgumentParser()
    ap.add_argument('prop', choices=sorted(TIERS))
    ap.add_argument('--tier', default=os.environ.get('VERIF_TIER') or 'quick', choices=['quick', 'thorough'])
    ap.add_argument('--seed', type=int, default=None)
    ap.add_argument('--replay', default=None)
    ap.add_argument('--budget', type=float, default=None, help='override the wall-clock budget (seconds)')
    ap.add_argument('--runs', type=int, default=None, help='override the maximum number of runs')
    ap.add_argument('--workers', type=int, default=None)
    ap.add_argument('--no-evidence', action='store_true')
    ap.add_argument('--dump-digests', default=None, help='write {run index: [event-log digest, violated]} to this file')
    ap.add_argument('--survey', action='store_true', help='do not stop at the first violation; list all (no evidence written)')
    args = ap.parse_args(argv)

    seed = args.seed
    if seed is None:
        env = os.environ.get('VERIF_SEED')
        seed = int(env) if env not in (None, '') else DEFAULT_SEED[args.tier]

    # the simulator's lock factory has to be in place before kingdon is imported
    engine.install_lock_patch()
    if REPO not in sys.path:
        sys.path.insert(0, REPO)
    import kingdon
    kfile = os.path.realpath(kingdon.__file__)
    if not kfile.startswith(os.path.realpath(REPO) + os.sep):
        print(f'HARNESS-ERROR: kingdon imported from {kfile}, not from {REPO}', flush=True)
        return 2

    mod = importlib.import_module(f'sim.check_{args.prop.lower()}')
    from . import batch

    if args.replay:
        mod.worker_init(args.tier)
        v, res, tr = mod.replay_file(args.replay)
        if v is not None:
            print(json.dumps(dict(violation=v), indent=1, default=str))
            print(f'VIOLATION property={args.prop} replay={args.replay}', flush=True)
            return 1
        print(f'replay of {args.replay}: no violation reproduced '
              f'(digest {res.get("digest") if isinstance(res, dict) else res})', flush=True)
        return 0

    budget, max_runs, selftest = TIERS[args.prop][args.tier]
    if args.budget is not None:
        budget = args.budget
    if args.runs is not None:
        max_runs = args.runs
    print(f'{args.prop} tier={args.tier} seed={seed} budget={budget}s kingdon={kfile}', flush=True)
    code, evidence, herr = batch.drive(mod, args.prop, args.tier, seed, budget, max_runs, selftest,
                                       nworkers=args.workers, survey=args.survey)
    if args.dump_digests:
        with open(args.dump_digests, 'w') as f:
            json.dump(evidence.get('_digests', {}), f, sort_keys=True)
    if not args.no_evidence and not args.survey:
        p = batch.write_evidence(args.prop, evidence)
    cov = evidence['coverage']
    print(f"{args.prop}: {cov.get('evaluations')} runs, {cov.get('distinct_nontrivial')} distinct non-trivial, "
          f"wall {evidence['wall_s']}s, exit {code}", flush=True)
    return code


if __name__ == '__main__':
    sys.exit(main())
