"""Seeded generation of C09 worlds: algebras, key-pattern pools, caller programs, fault plans.

Everything is drawn from the run's own PRNG *before* execution, so what each caller does never
depends on the schedule.  Nothing here creates an Algebra (the worker process must stay pristine);
the canonical blade order is recomputed by a small pure function that is used only to choose
inputs -- never to judge results.
"""
from . import bodies
from .ops import BINARY_OPS, UNARY_OPS, INFIX, UNARY_INFIX

NAMED_BASES = {
    '2DPGA': ["e", "e1", "e2", "e0", "e20", "e01", "e12", "e012"],
    '3DPGA': ["e", "e1", "e2", "e3", "e0", "e01", "e02", "e03", "e12", "e31", "e23",
              "e032", "e013", "e021", "e123", "e0123"],
}
NAMED_PQR = {'2DPGA': (2, 0, 1), '3DPGA': (3, 0, 1)}


def dim_of(a):
    if a.get('name'):
        return sum(NAMED_PQR[a['name']])
    if a.get('signature') is not None:
        return len(a['signature'])
    return a.get('p', 0) + a.get('q', 0) + a.get('r', 0)


def r_of(a):
    if a.get('name'):
        return NAMED_PQR[a['name']][2]
    if a.get('signature') is not None:
        return list(a['signature']).count(0)
    return a.get('r', 0)


def start_index_of(a):
    if a.get('name'):
        return 0
    if a.get('start_index') is not None:
        return a['start_index']
    return 0 if r_of(a) == 1 else 1


def canon_keys(a):
    """Blade keys (binary) in the algebra's canonical order, and their canonical names."""
    d = dim_of(a)
    if a.get('name'):
        basis = NAMED_BASES[a['name']]
        vecs = [e[1:] for e in basis if len(e) == 2]
        v2b = {v: 2 ** j for j, v in enumerate(vecs)}
        out = []
        for e in basis:
            b = 0
            for ch in e[1:]:
                b ^= v2b[ch]
            out.append((b, e))
        return out
    si = start_index_of(a)
    names = {}
    for k in range(2 ** d):
        names[k] = 'e' + ''.join(hex(i + si)[2:] for i in range(d) if k & (1 << i))
    return sorted(((k, n) for k, n in names.items()), key=lambda kn: (len(kn[1]), kn[1]))


def grade(k):
    return bin(k).count('1')


# ------------------------------------------------------------------------------------- values

def gen_value(rng, kind):
    if kind == 'mixed':
        kind = rng.choice(['int', 'int', 'Fraction', 'float'])
    if kind == 'int':
        return rng.choice([-4, -3, -2, -1, 1, 2, 3, 4, 5, 6, 7, 9])
    if kind == 'Fraction':
        n = rng.choice([-5, -3, -1, 1, 2, 3, 5, 7])
        dd = rng.choice([2, 3, 4, 5, 7])
        return f'{n}/{dd}'
    if kind == 'float':
        return {'f': rng.choice([-2.5, -1.25, -0.5, 0.5, 0.75, 1.5, 2.0, 3.25])}
    if kind == 'nd':
        return {'nd': [rng.choice([-2.0, -1.0, 0.5, 1.0, 2.0, 3.0]) for _ in range(3)], 'dt': 'float64'}
    raise ValueError(kind)


def respell_number(rng, v):
    """An equal number of another type (None if there is no exact one)."""
    from fractions import Fraction
    if isinstance(v, bool) or isinstance(v, int):
        x = Fraction(int(v))
    elif isinstance(v, str):
        n, d = v.split('/')
        x = Fraction(int(n), int(d))
    elif isinstance(v, dict) and 'f' in v:
        x = Fraction(float(v['f']))
    elif isinstance(v, dict) and 'np' in v:
        x = Fraction(float(v['np']))
    else:
        return None
    spellings = []
    if x.denominator == 1:
        spellings.append(int(x))
        if x == 1:
            spellings.append(True)
    if Fraction(float(x)) == x:
        spellings.append({'f': float(x)})
        import numpy as _np
        if Fraction(float(_np.float32(float(x)))) == x:
            spellings.append({'np': float(x), 'dt': 'float32'})
    spellings.append(f'{x.numerator}/{x.denominator}')
    spellings = [w for w in spellings if type(w) is not type(v) or (isinstance(w, dict) and sorted(w) != sorted(v))]
    return rng.choice(spellings) if spellings else None


# ------------------------------------------------------------------------------------- algebras

def gen_algebra(rng, d, tier):
    a = {}
    u = rng.random()
    if d == 3 and u < 0.12:
        a['name'] = '2DPGA'
    elif d == 4 and u < 0.15:
        a['name'] = '3DPGA'
    elif u < 0.3:
        sig = [rng.choice([1, 1, 1, -1, 0]) for _ in range(d)]
        while sig.count(0) > 2:
            sig[sig.index(0)] = 1
        a['signature'] = sig
    else:
        r = rng.choice([0, 0, 0, 1, 1, 2]) if d >= 2 else rng.choice([0, 0, 1])
        r = min(r, d)
        q = rng.choice([0, 0, 1, 2])
        q = min(q, d - r)
        a.update(p=d - r - q, q=q, r=r)
    if rng.random() < 0.3:
        a['cse'] = False
    if rng.random() < 0.1 and not a.get('name'):
        a['graded'] = True
    if rng.random() < 0.1:
        a['symbolcls'] = 'sympy'
    if rng.random() < 0.05:
        a['simp_func'] = 'ident'
    if rng.random() < 0.5:
        a['wrapper'] = rng.choice(['stub', 'stub', 'ident', 'opaque'])
    if rng.random() < 0.1 and not a.get('name'):
        a['start_index'] = rng.choice([0, 1])
    return a


def variant_of(rng, a, tier):
    """Another algebra of the same dimension, usually with another signature (cross-algebra leaks)."""
    d = dim_of(a)
    for _ in range(10):
        b = gen_algebra(rng, d, tier)
        if rng.random() < 0.5:
            b.pop('name', None)
        if b != a:
            return b
    return b


# ------------------------------------------------------------------------------------- key pools

class Pool:
    """Per-run pool of key *sets* with a few fixed orderings each, so that histories revisit the
    same set in another order or padding (DESIGN.md section 3)."""

    def __init__(self, rng, a):
        self.a = a
        self.d = dim_of(a)
        ck = canon_keys(a)
        self.canon = [k for k, _ in ck]
        self.name = {k: n for k, n in ck}
        self.pos = {k: i for i, k in enumerate(self.canon)}
        self.graded = bool(a.get('graded'))
        d = self.d
        sets = []
        grades = list(range(d + 1))
        byg = {g: [k for k in self.canon if grade(k) == g] for g in grades}
        if d >= 1:
            sets.append(tuple(byg[1]))
        if self.graded:
            for _ in range(3):
                gs = sorted(rng.sample(grades, rng.choice([1, 1, 2, 2, 3]) if d >= 2 else 1))
                sets.append(tuple(k for k in self.canon if grade(k) in gs))
        else:
            if d >= 2:
                sets.append(tuple(k for k in self.canon if grade(k) % 2 == 0)[: rng.choice([2, 3, 4, 8])])
                sets.append(tuple(byg[rng.choice([g for g in grades if 0 < g])])[:4])
            for _ in range(2):
                n = rng.randint(1, min(4, 2 ** d))
                sets.append(tuple(sorted(rng.sample(self.canon, n), key=self.pos.get)))
            if rng.random() < 0.5:
                sets.append((0,))
        seen, out = set(), []
        for s in sets:
            s = tuple(sorted(set(s), key=self.pos.get))
            if s and frozenset(s) not in seen:
                seen.add(frozenset(s))
                out.append(s)
        self.sets = out[:5]
        self.perms = {}
        for s in self.sets:
            ps = [s]
            if len(s) > 1 and not self.graded:
                for _ in range(2):
                    p = list(s)
                    for _ in range(5):
                        rng.shuffle(p)
                        if tuple(p) != s:
                            break
                    if tuple(p) not in ps:
                        ps.append(tuple(p))
            self.perms[s] = ps

    def pick_keys(self, rng):
        s = rng.choice(self.sets)
        if self.graded:
            return s, 'canon'
        u = rng.random()
        if u < 0.45:
            return s, 'canon'
        if u < 0.80:
            return rng.choice(self.perms[s]), 'perm'
        if u < 0.90:
            extra = [k for k in self.canon if k not in s]
            if extra:
                add = rng.sample(extra, min(len(extra), rng.choice([1, 1, 2])))
                keys = list(rng.choice(self.perms[s])) + add
                if rng.random() < 0.5:
                    keys = sorted(keys, key=self.pos.get)
                return tuple(keys), ('pad', tuple(add))
            return s, 'canon'
        if u < 0.93:
            return (), 'empty'
        if u < 0.97:
            return tuple(self.canon), ('dense-canon', s)
        return tuple(range(2 ** self.d)), ('dense-bin', s)


def gen_operand(rng, pool, ai, ctx, allow_sym=True, allow_shared=True):
    """One operand recipe on algebra ai."""
    if allow_shared and ctx['shared_by_alg'].get(ai) and rng.random() < 0.15:
        return {'k': 'sh', 'i': rng.choice(ctx['shared_by_alg'][ai])}
    keys, form = pool.pick_keys(rng)
    vk = ctx['valkind']
    if allow_sym and rng.random() < ctx['p_sym'] and keys:
        nm = rng.choice(['x', 'y'])
        if pool.graded:
            gs = sorted({grade(k) for k in keys})
            return {'k': 'sym', 'name': nm, 'grades': gs}
        if rng.random() < 0.5:
            return {'k': 'sym', 'name': nm, 'keys': list(keys)}
        vals = [gen_value(rng, 'int') if rng.random() < 0.4 else {'s': f'{nm}{pool.name[k][1:]}'} for k in keys]
        return {'k': 'kv', 'keys': list(keys), 'vals': vals}
    if isinstance(form, tuple) and form[0] == 'pad':
        vals = [0 if k in form[1] else gen_value(rng, vk) for k in keys]
    elif isinstance(form, tuple) and form[0].startswith('dense'):
        inside = set(form[1])
        vals = [gen_value(rng, vk) if (k in inside or rng.random() < 0.3) else 0 for k in keys]
    else:
        vals = [gen_value(rng, vk) for k in keys]
    keys = list(keys)
    if pool.graded:
        gs = sorted({grade(k) for k in keys})
        if rng.random() < 0.6:
            return {'k': 'gr', 'grades': gs, 'vals': vals}
        return {'k': 'kv', 'keys': keys, 'vals': vals}
    if isinstance(form, tuple) and form[0] == 'dense-canon':
        return {'k': 'dense', 'layout': 'canon', 'vals': vals}
    if isinstance(form, tuple) and form[0] == 'dense-bin':
        return {'k': 'dense', 'layout': 'bin', 'vals': vals}
    gs_ = sorted({grade(k) for k in keys})
    if keys and sorted(k for k in pool.canon if grade(k) in gs_) == sorted(keys) and rng.random() < 0.2:
        # the named constructors (values in canonical order of the grades)
        d_ = pool.d
        names = {(1,): 'vector', (2,): 'bivector', (3,): 'trivector', (4,): 'quadvector', (0,): 'scalar',
                 (d_,): 'pseudoscalar', (d_ - 1,): 'pseudovector', (d_ - 2,): 'pseudobivector'}
        cands = [names[tuple(gs_)]] if tuple(gs_) in names else []
        if gs_ == [g for g in range(d_ + 1) if g % 2 == 0]:
            cands.append('evenmv')
        if gs_ == [g for g in range(d_ + 1) if g % 2 == 1]:
            cands.append('oddmv')
        r = {'k': 'gr', 'grades': gs_, 'vals': vals}
        if cands and rng.random() < 0.6:
            r['ctor'] = rng.choice(cands)
        return r
    u = rng.random()
    if u < 0.55 or not keys:
        return {'k': 'kv', 'keys': keys, 'vals': vals}
    if u < 0.62:
        r = {'k': 'fkv', 'keys': keys, 'vals': vals}
        if rng.random() < 0.15:
            r['keys_as'] = 'list'
        return r
    if u < 0.72:
        if rng.random() < 0.5:
            return {'k': 'map', 'keys': keys, 'vals': vals}
        return {'k': 'map', 'keys': [pool.name[k] for k in keys], 'vals': vals}
    def spell(k):
        # blades may be spelled with their indices in any order (e21 = -e12)
        n = pool.name[k]
        if len(n) > 2 and rng.random() < 0.35:
            idx = list(n[1:])
            rng.shuffle(idx)
            return 'e' + ''.join(idx)
        return n
    if u < 0.82:
        items = []
        for k, v in zip(keys, vals):
            items.append([spell(k), v])
        return {'k': 'kw', 'items': items}
    if u < 0.94:
        terms = [[v, spell(k)] for k, v in zip(keys, vals)]
        return {'k': 'bl', 'terms': terms, 'via': rng.choice(['item', 'attr'])}
    gs = sorted({grade(k) for k in keys})
    full = [k for k in pool.canon if grade(k) in gs]
    if sorted(full) == sorted(keys):
        return {'k': 'gr', 'grades': gs, 'vals': vals}
    return {'k': 'kv', 'keys': keys, 'vals': vals}


# ------------------------------------------------------------------------------------- operations

def gen_op(rng, ai, pool, ctx):
    w = ctx['weights']
    kinds = list(w)
    kind = rng.choices(kinds, weights=[w[k] for k in kinds])[0]
    regs = ctx['regs_by_alg'].get(ai, [])
    if kind in ('reg', 'register') and not regs:
        kind = 'bin'
    if kind == 'bin':
        name = rng.choice(ctx['binops'])
        a = gen_operand(rng, pool, ai, ctx)
        b = gen_operand(rng, pool, ai, ctx)
        form = rng.choice(['method', 'method', 'infix', 'infix', 'alg'])
        if form == 'infix' and name not in INFIX:
            form = 'method'
        u = rng.random()
        if u < (0.08 if ctx['valkind'] != 'nd' else 0.3):
            num = {'k': 'num', 'v': gen_value(rng, ctx['valkind'] if ctx['valkind'] != 'nd' or rng.random() < 0.2
                                              else rng.choice(['int', 'float']))}
            # the same number in another type on the operator that saw it before (3, 3.0, Fraction(3), np.float32(3),
            # True/1 are equal and hash alike: anything keyed by the number itself confuses them)
            hist = ctx.setdefault('numhist', {}).setdefault(ai, [])
            if hist and rng.random() < 0.5:
                name0, v0 = rng.choice(hist)
                v1 = respell_number(rng, v0)
                if v1 is not None and (form != 'infix' or name0 in INFIX):
                    name, num = name0, {'k': 'num', 'v': v1}
            hist.append((name, num['v']))
            if rng.random() < 0.5 and name in INFIX:
                a, form = num, 'infix'            # reflected operator
            elif a.get('k') != 'num':
                b = num
        elif u < 0.11:
            b = {'k': 'call0', 'of': b}
            form = 'alg' if rng.random() < 0.5 else form
        elif u < 0.14:
            b = {'k': 'list', 'of': [b, gen_operand(rng, pool, ai, ctx)], 'tuple': rng.random() < 0.5}
            form = 'alg'
        elif u < 0.16 and len(ctx['pools']) > 1:
            other = rng.choice([j for j in range(len(ctx['pools'])) if j != ai])
            b = {'k': 'other', 'alg': other, 'of': gen_operand(rng, ctx['pools'][other], other, ctx, allow_shared=False)}
        if form == 'method' and a.get('k') in ('num', 'call0', 'list'):
            form = 'alg'
        if rng.random() < 0.06 and a.get('k') not in ('num', 'call0', 'list'):
            b = {'k': 'same', 'of': a}          # both operands are one object
        return {'alg': ai, 'kind': 'bin', 'op': name, 'form': form, 'args': [a, b]}
    if kind == 'un':
        name = rng.choice(ctx['unops'])
        a = gen_operand(rng, pool, ai, ctx)
        form = rng.choice(['method', 'method', 'alg', 'infix'])
        if form == 'infix' and name not in UNARY_INFIX:
            form = 'method'
        return {'alg': ai, 'kind': 'un', 'op': name, 'form': form, 'args': [a]}
    if kind == 'meth':
        a = gen_operand(rng, pool, ai, ctx)
        names = ['grade', 'grade', 'dual', 'undual', 'norm', 'normalized', 'exp', 'pow', 'pow',
                 'asfullmv', 'filter', 'getblade', 'map', 'deepcopy', 'pickle', 'copy']
        if pool.d <= 3:
            names.append('asmatrix')
        if ctx['valkind'] == 'nd':
            names += ['index', 'index']
        name = rng.choice(names)
        if rng.random() < 0.12:
            # cached objects handed out by the algebra itself
            pname = rng.choice(['pss', 'frame', 'blade', 'blade', 'blades_grade'] + (['reciprocal_frame'] if pool.d <= 3 else []))
            op = {'alg': ai, 'kind': 'algprop', 'op': pname, 'args': []}
            if pname == 'blade':
                n = pool.name[rng.choice(pool.canon)]
                if len(n) > 2 and rng.random() < 0.4:
                    idx = list(n[1:])
                    rng.shuffle(idx)
                    n = 'e' + ''.join(idx)
                op['params'] = [n]
            elif pname == 'blades_grade':
                op['params'] = [rng.randrange(pool.d + 1)]
            return op
        op = {'alg': ai, 'kind': 'meth', 'op': name, 'args': [a]}
        if name == 'grade':
            op['params'] = sorted(rng.sample(range(pool.d + 1), rng.randint(1, min(2, pool.d + 1))))
            if rng.random() < 0.3:
                op['astuple'] = True
        elif name in ('dual', 'undual'):
            op['params'] = rng.choice([[], [], ['auto'], ['polarity'], ['hodge']])
        elif name == 'pow':
            op['params'] = [rng.choice([0, 2, 2, 3, -1, -2, {'f': 0.5}])]
        elif name == 'asfullmv':
            op['params'] = rng.choice([[], [1], [0]])
        elif name == 'getblade':
            op['params'] = [pool.name[rng.choice(pool.canon)]]
        elif name == 'map':
            op['params'] = rng.choice([[], [2], ['tosym'], ['tonum']])
        elif name == 'index':
            op['params'] = [rng.randrange(3)]
        return op
    if kind == 'reg':
        bid = rng.choice(regs)
        n = bodies.LIB[bid]['nargs']
        args = [gen_operand(rng, pool, ai, ctx, allow_sym=rng.random() < 0.1) for _ in range(n)]
        if rng.random() < 0.05:
            args[-1] = {'k': 'call0', 'of': args[-1]}
        if rng.random() < 0.05:
            args[-1] = {'k': 'num', 'v': gen_value(rng, ctx['valkind'])}
        op = {'alg': ai, 'kind': 'reg', 'fn': bid, 'args': args}
        if rng.random() < 0.12 and not bodies.LIB[bid].get('selfref'):
            op['mode'] = 'flip'      # through a second registration of the same function, other `symbolic` value
        return op
    if kind == 'register':
        return {'alg': ai, 'kind': 'register', 'fn': rng.choice(regs)}
    if kind == 'symcall':
        cands = [i for i in ctx['shared_by_alg'].get(ai, []) if ctx['shared_syms'].get(i) is not None]
        u = rng.random()
        vals8 = [gen_value(rng, ctx['valkind']) for _ in range(8)]
        if cands and u < 0.5:
            i = rng.choice(cands)
            return {'alg': ai, 'kind': 'symcall', 'args': [{'k': 'sh', 'i': i}],
                    'call': {'mode': rng.choice(['autopos', 'autokw']), 'vals': vals8}}
        if u < 0.65 and not pool.graded:
            # coefficients named by *position* (p0, p1, ...): the same expressions on the same key set in
            # another key order are a different element
            keys, _ = pool.pick_keys(rng)
            keys = list(keys) or [pool.canon[0]]
            vals = [{'s': f'p{j}'} if rng.random() < 0.85 else gen_value(rng, 'int') for j in range(len(keys))]
            target = {'k': rng.choice(['kv', 'kv', 'fkv', 'map']), 'keys': keys, 'vals': vals}
            return {'alg': ai, 'kind': 'symcall', 'args': [target],
                    'call': {'mode': rng.choice(['autopos', 'autokw']), 'vals': vals8}}
        if u < 0.85 and not pool.graded:
            # a fresh symbolic expression (a new object every time, same key set as others in the pool)
            target = gen_symexpr(rng, ai, pool)
            return {'alg': ai, 'kind': 'symcall', 'args': [target],
                    'call': {'mode': rng.choice(['autopos', 'autokw']), 'vals': vals8}}
        keys, _ = pool.pick_keys(rng)
        keys = list(keys) or [pool.canon[0]]
        nm = rng.choice(['x', 'y'])
        if pool.graded:
            gs = sorted({grade(k) for k in keys})
            keys = [k for k in pool.canon if grade(k) in gs]
            target = {'k': 'sym', 'name': nm, 'grades': gs}
        else:
            target = {'k': 'sym', 'name': nm, 'keys': keys}
        names = sorted(f'{nm}{pool.name[k][1:]}' for k in keys)
        vals = [gen_value(rng, ctx['valkind']) for _ in names]
        mode = rng.choice(['kw', 'pos'])
        return {'alg': ai, 'kind': 'symcall', 'args': [target],
                'call': {'mode': mode, 'names': names, 'vals': vals}}
    raise ValueError(kind)


def gen_symexpr(rng, ai, pool):
    """Recipe of a symbolic multivector with non-trivial coefficient expressions (2*u, u+v, u*v, ...)."""
    k1, _ = pool.pick_keys(rng)
    k1 = list(k1) or [pool.canon[-1]]
    a = {'k': 'sym', 'name': rng.choice(['u', 'x']), 'keys': k1}
    u = rng.random()
    if u < 0.4:
        op = {'alg': ai, 'kind': 'bin', 'op': 'gp', 'form': 'infix',
              'args': [{'k': 'num', 'v': rng.choice([2, 3, -1, 5])}, a]}
    elif u < 0.7:
        b = {'k': 'sym', 'name': rng.choice(['v', 'y']), 'keys': k1 if rng.random() < 0.6 else (list(pool.pick_keys(rng)[0]) or k1)}
        op = {'alg': ai, 'kind': 'bin', 'op': rng.choice(['add', 'sub']), 'form': 'method', 'args': [a, b]}
    else:
        k2, _ = pool.pick_keys(rng)
        b = {'k': 'sym', 'name': rng.choice(['v', 'y']), 'keys': list(k2) or k1}
        op = {'alg': ai, 'kind': 'bin', 'op': rng.choice(['gp', 'op', 'ip']), 'form': 'method', 'args': [a, b]}
    return {'k': 'opres', 'op': op}


def gen_shared(rng, ai, pool, ctx):
    """A shared operand (the same object is handed to several callers).  Returns (spec, free-symbol
    names or None)."""
    u = rng.random()
    if u < 0.25 and not pool.graded:
        keys, _ = pool.pick_keys(rng)
        keys = list(keys) or [pool.canon[-1]]
        nm = rng.choice(['x', 'y'])
        names = sorted(f'{nm}{pool.name[k][1:]}' for k in keys)
        return {'alg': ai, 'recipe': {'k': 'sym', 'name': nm, 'keys': keys}}, names
    if u < 0.5 and not pool.graded:
        return {'alg': ai, 'recipe': gen_symexpr(rng, ai, pool)}, []
    r = gen_operand(rng, pool, ai, ctx, allow_sym=False, allow_shared=False)
    return {'alg': ai, 'recipe': r}, None


POLICIES = [
    {'kind': 'walk', 'p': 0.002}, {'kind': 'walk', 'p': 0.02}, {'kind': 'walk', 'p': 0.2},
    {'kind': 'crit', 'p_crit': 0.3, 'p_base': 0.002}, {'kind': 'crit', 'p_crit': 0.08, 'p_base': 0.0005},
    {'kind': 'pct', 'k': 1}, {'kind': 'pct', 'k': 2}, {'kind': 'pct', 'k': 3},
    {'kind': 'pctc', 'k': 1, 'est_crit': 60}, {'kind': 'pctc', 'k': 1, 'est_crit': 250},
    {'kind': 'pctc', 'k': 2, 'est_crit': 250}, {'kind': 'pctc', 'k': 2, 'est_crit': 1000},
]
POLICIES += [{'kind': 'pcta', 'k': 1, 'est': 40}, {'kind': 'pcta', 'k': 2, 'est': 150}]
TWIN_POLICIES = [p for p in POLICIES if p['kind'] == 'pctc'] + [
    {'kind': 'pcta', 'k': 1, 'est': 30}, {'kind': 'pcta', 'k': 1, 'est': 100}, {'kind': 'pcta', 'k': 2, 'est': 100},
    {'kind': 'pcta', 'k': 2, 'est': 300}, {'kind': 'pcta', 'k': 3, 'est': 300}] + [
    {'kind': 'crit', 'p_crit': 0.3, 'p_base': 0.002}, {'kind': 'walk', 'p': 0.02}]
RDV_POLICIES = [{'kind': 'rdv', 'est': 25, 'burst': 60, 'alt': 1.0, 'rounds': 2},
                {'kind': 'rdv', 'est': 60, 'burst': 400, 'alt': 1.0, 'rounds': 1},
                {'kind': 'rdv', 'est': 60, 'burst': 400, 'alt': 0.6, 'rounds': 3},
                {'kind': 'rdv', 'est': 150, 'burst': 2000, 'alt': 1.0, 'rounds': 2}]
POLICIES += RDV_POLICIES[:2]
RACE_POLICIES = [{'kind': 'rdv', 'est': 12, 'burst': 30000, 'alt': 1.0, 'rounds': 1},
                 {'kind': 'rdv', 'est': 25, 'burst': 30000, 'alt': 1.0, 'rounds': 1},
                 {'kind': 'rdv', 'est': 25, 'burst': 200, 'alt': 1.0, 'rounds': 4},
                 {'kind': 'rdv', 'est': 40, 'burst': 2000, 'alt': 0.7, 'rounds': 2},
                 {'kind': 'pcta', 'k': 1, 'est': 30}, {'kind': 'pcta', 'k': 2, 'est': 60}, {'kind': 'pcta', 'k': 1, 'est': 45}]
TWIN_POLICIES += RDV_POLICIES * 2


def _has_prev(op):
    return any(a.get('k') == 'prev' for a in op.get('args', []))


DERIVING_METHODS = ('map', 'index', 'grade', 'filter', 'asfullmv', 'dual', 'undual', 'getblade', 'normalized',
                    'exp', 'pow', 'norm')


def _derivable(o):
    """Operations whose returned multivector a later operation of the same caller may take as an operand
    (copy/pickle are left out: whether they succeed depends on what hangs off the algebra)."""
    if _has_prev(o) or any(a.get('k') in ('list', 'other') for a in o.get('args', [])):
        return False
    if o['kind'] in ('bin', 'un', 'reg', 'symcall'):
        return True
    return o['kind'] == 'meth' and o.get('op') in DERIVING_METHODS


def _copy_recipe(r):
    import copy
    return copy.deepcopy(r)


def twin_of(rng, prog, algebras, pools):
    """The same program with operand key orders permuted and/or moved to another algebra of the same
    dimension: two callers that generate *colliding* patterns at the same time (race-directed arm)."""
    import copy
    out = copy.deepcopy(prog)
    swap = None
    if len(algebras) > 1 and rng.random() < 0.5:
        same = [j for j in range(1, len(algebras)) if dim_of(algebras[j]) == dim_of(algebras[0])
                and not algebras[j].get('graded') and not algebras[0].get('graded')
                and not algebras[j].get('name') and not algebras[0].get('name')]
        if same:
            swap = rng.choice(same)

    def perm(r):
        k = r.get('k')
        if k in ('kv', 'fkv', 'map') and len(r.get('keys', [])) > 1 and rng.random() < 0.7:
            idx = list(range(len(r['keys'])))
            rng.shuffle(idx)
            r['keys'] = [r['keys'][i] for i in idx]
            r['vals'] = [r['vals'][i] for i in idx]
        elif k in ('call0',):
            perm(r['of'])
        elif k == 'list':
            for x in r['of']:
                perm(x)
    for op in out:
        if swap is not None and op['alg'] == 0 and op['kind'] in ('bin', 'un', 'meth') and \
                not any(a.get('k') in ('sh', 'other') for a in op.get('args', [])):
            op['alg'] = swap
        for a in op.get('args', []):
            perm(a)
    for op in out:
        for a in op.get('args', []):
            if a.get('k') == 'prev':
                a['op'] = copy.deepcopy(out[a['i']])
    return out


def gen_trace(rng, tier='quick', crit_names=(), arm=None, targets=()):
    """A complete C09 run description (see DESIGN.md 8.1)."""
    u = rng.random()
    dims = [1, 2, 3, 4, 7]
    wts = [0.05, 0.39, 0.39, 0.15, 0.02]       # 7-D: sign table and basis blades are filled lazily
    if tier == 'thorough':
        dims = [1, 2, 3, 4, 5, 7]
        wts = [0.04, 0.36, 0.38, 0.17, 0.02, 0.03]
    d = rng.choices(dims, weights=wts)[0]
    n_alg = rng.choices([1, 2, 3], weights=[0.55, 0.38, 0.07])[0]
    algebras = [gen_algebra(rng, d, tier)]
    for _ in range(n_alg - 1):
        if rng.random() < 0.75:
            algebras.append(variant_of(rng, algebras[0], tier))
        else:
            algebras.append(gen_algebra(rng, rng.choice([2, 3]), tier))
    big = max(dim_of(a) for a in algebras) >= 5
    pools = [Pool(rng, a) for a in algebras]
    # algebras of equal dimension share their key pool half of the time (cross-algebra collisions)
    for i in range(1, len(pools)):
        if pools[i].d == pools[0].d and not pools[i].graded and not pools[0].graded and rng.random() < 0.6 \
                and not algebras[i].get('name') and not algebras[0].get('name'):
            pools[i].sets, pools[i].perms = pools[0].sets, pools[0].perms

    n_callers = rng.choices([1, 2, 3, 4], weights=[0.3, 0.35, 0.25, 0.1])[0]
    # race arm: two or three callers run (differently permuted) copies of one very short program, so that their
    # *first* calls of an operator collide; a wrapper or registered functions make name-keyed state observable;
    # the schedule is a rendezvous followed by a long lockstep.  Short runs: many of them per second.
    race = arm is None and rng.random() < 0.18 and not any(a.get('graded') or a.get('name') for a in algebras)
    if race:
        n_callers = rng.choice([2, 2, 3])
    ctx = dict(
        valkind=rng.choices(['int', 'Fraction', 'float', 'mixed', 'nd'], weights=[0.46, 0.14, 0.14, 0.14, 0.12])[0],
        p_sym=rng.choice([0, 0, 0.1, 0.25]),
        pools=pools,
        shared_by_alg={}, shared_syms={}, regs_by_alg={},
    )
    heavy = ['div', 'inv', 'sqrt', 'outertan', 'proj', 'sw']
    bins = list(BINARY_OPS)
    uns = list(UNARY_OPS)
    if big:
        bins = [b for b in bins if b not in ('div', 'proj', 'sw')]
        uns = [x for x in uns if x not in ('inv', 'sqrt', 'outertan', 'outerexp', 'outersin', 'outercos', 'normsq')]
    nb = rng.randint(2, 5)
    ctx['binops'] = ['gp'] + rng.sample(bins, nb)
    ctx['unops'] = rng.sample(uns, rng.randint(2, 4))
    ctx['weights'] = {'bin': 50, 'un': 14, 'meth': 10 if not big else 2, 'reg': rng.choice([0, 15, 30]),
                      'register': 2, 'symcall': rng.choice([0, 5, 10, 25])}
    # mirror arm: the same operations, operand for operand, on two algebras of equal dimension and
    # different signature, drawn from the whole operator alphabet (cross-algebra leaks)
    mirror_with = None
    if len(algebras) >= 2 and rng.random() < 0.4 and not race:
        same = [j for j in range(1, len(algebras)) if dim_of(algebras[j]) == dim_of(algebras[0])
                and not algebras[j].get('graded') and not algebras[0].get('graded')
                and not algebras[j].get('name') and not algebras[0].get('name')]
        if same:
            mirror_with = rng.choice(same)
            ctx['binops'], ctx['unops'] = bins, uns
            ctx['weights'] = {'bin': 40, 'un': 40, 'meth': 8 if not big else 2, 'reg': 0, 'register': 0, 'symcall': 4}

    registered = []
    if ctx['weights']['reg']:
        for ai in range(len(algebras)):
            if rng.random() < 0.85:
                cands = [b for b in bodies.LIB if not (big and b in ('divmix', 'invx', 'sw', 'projrp'))]
                chosen = rng.sample(cands, rng.randint(1, 4))
                for bid in bodies.closure(chosen):
                    r = {'alg': ai, 'body': bid}
                    if rng.random() < 0.15:
                        r['symbolic'] = True
                    if rng.random() < 0.15:
                        r['name'] = rng.choice(['f', 'myfunc', 'gp'])
                    if rng.random() < 0.3:
                        r['style'] = 'deco'
                    registered.append(r)
                ctx['regs_by_alg'][ai] = [r['body'] for r in registered if r['alg'] == ai]

    shared = []
    for ai in range(len(algebras)):
        for _ in range(rng.choice([0, 1, 2, 3])):
            spec, names = gen_shared(rng, ai, pools[ai], ctx)
            ctx['shared_by_alg'].setdefault(ai, []).append(len(shared))
            if names is not None:
                ctx['shared_syms'][len(shared)] = names
            shared.append(spec)

    callers = []
    p_chain = rng.choice([0, 0, 0.1, 0.25])
    for c in range(n_callers):
        n_ops = rng.randint(3, 10 if not big else 5) if not race else rng.randint(1, 3)
        prog = []
        for _ in range(n_ops):
            ai = rng.randrange(len(algebras)) if rng.random() < 0.7 else 0
            op = gen_op(rng, ai, pools[ai], ctx)
            # an operand may be the multivector returned by an earlier operation of this caller
            earlier = [j for j, o in enumerate(prog) if o['alg'] == ai and _derivable(o)]
            if earlier and op['kind'] in ('bin', 'un', 'meth', 'reg', 'symcall') and op.get('args') and rng.random() < p_chain:
                j = rng.choice(earlier)
                slot = rng.randrange(len(op['args']))
                if op['kind'] == 'symcall':
                    op['call']['mode'] = rng.choice(['autopos', 'autokw'])
                    op['call']['vals'] = (op['call']['vals'] + [gen_value(rng, ctx['valkind']) for _ in range(8)])[:8]
                if op['args'][slot].get('k') not in ('num',):
                    op['args'][slot] = {'k': 'prev', 'i': j, 'op': prog[j]}
            prog.append(op)
            a0 = op['args'][0] if op.get('args') else {}
            if op['kind'] == 'symcall' and a0.get('k') in ('sh', 'kv', 'fkv', 'map', 'sym') and rng.random() < 0.35:
                # derive a new multivector from one that has been used (its cached properties are filled),
                # then use the derived one: call it, or operate on it
                how = rng.choice(['map', 'map', 'map', 'grade', 'filter', 'asfullmv', 'dual', 'pow'])
                dop = {'alg': ai, 'kind': 'meth', 'op': how, 'args': [_copy_recipe(a0)]}
                if how == 'map':
                    dop['params'] = rng.choice([[], [2], ['tonum'], ['tosym']])
                elif how == 'grade':
                    dop['params'] = sorted(rng.sample(range(pools[ai].d + 1), rng.randint(1, min(2, pools[ai].d + 1))))
                elif how == 'dual':
                    dop['params'] = []
                elif how == 'pow':
                    dop['params'] = [2]
                elif how == 'asfullmv':
                    dop['params'] = []
                prog.append(dop)
                j = len(prog) - 1
                use = {'alg': ai, 'kind': 'symcall', 'args': [{'k': 'prev', 'i': j, 'op': prog[j]}],
                       'call': {'mode': rng.choice(['autopos', 'autokw']),
                                'vals': [gen_value(rng, ctx['valkind']) for _ in range(8)]}}
                if rng.random() < 0.3:
                    use = {'alg': ai, 'kind': 'bin', 'op': rng.choice(ctx['binops']), 'form': 'method',
                           'args': [{'k': 'prev', 'i': j, 'op': prog[j]}, gen_operand(rng, pools[ai], ai, ctx)]}
                prog.append(use)
        callers.append(prog)

    # the same coefficient expressions on the same key set in another key order, called later (a different
    # element whose compiled callable must not be confused with the first one's)
    import copy as _copy
    for c, prog in enumerate(list(callers)):
        for op in list(prog):
            a0 = op['args'][0] if op.get('args') else {}
            if op['kind'] == 'symcall' and a0.get('k') in ('kv', 'fkv', 'map') and len(a0.get('keys', [])) > 1 \
                    and any(isinstance(v, dict) and 's' in v for v in a0['vals']) and rng.random() < 0.6:
                twin = _copy.deepcopy(op)
                ks = list(a0['keys'])
                for _ in range(5):
                    rng.shuffle(ks)
                    if ks != a0['keys']:
                        break
                twin['args'][0]['keys'] = ks
                callers[rng.randrange(len(callers))].append(twin)
    if mirror_with is not None:
        for c, prog in enumerate(callers):
            same_names = start_index_of(algebras[0]) == start_index_of(algebras[mirror_with])

            def portable(a):
                # blade *names* differ between algebras with another start index; numeric keys do not
                if a.get('k') in ('sh', 'other', 'prev'):
                    return False
                if same_names:
                    return True
                if a.get('k') in ('kw', 'bl', 'opres'):
                    return False
                if a.get('k') == 'map' and any(isinstance(k, str) for k in a.get('keys', [])):
                    return False
                if a.get('k') in ('call0',):
                    return portable(a['of'])
                if a.get('k') == 'list':
                    return all(portable(x) for x in a['of'])
                return True
            first = [op for op in prog if op['alg'] == 0 and all(portable(a) for a in op.get('args', []))
                     and not (op['kind'] == 'meth' and op.get('op') == 'getblade' and not same_names)]
            mirrored = []
            for op in first:
                m = _copy.deepcopy(op)
                m['alg'] = mirror_with
                mirrored.append(m)
            callers[c] = (first + mirrored) if rng.random() < 0.5 else (mirrored + first)
    twins = False
    if race:
        twins = True
        revisit = rng.random() < 0.5
        if revisit:
            # the caller itself revisits its first call with the operands' keys in another order
            callers[0] = callers[0] + twin_of(rng, callers[0][:1], algebras[:1], pools[:1])
        exact = rng.random() < (0.6 if revisit else 0.2)
        for c in range(1, n_callers):
            # exact copies (the same ordered key patterns at the same time) or permuted ones
            callers[c] = _copy.deepcopy(callers[0]) if exact else twin_of(rng, callers[0], algebras, pools)
        if rng.random() < 0.7:
            algebras[0]['wrapper'] = rng.choice(['stub', 'stub', 'ident', 'opaque'])
    elif mirror_with is None and n_callers >= 2 and rng.random() < 0.3 and not any(a.get('graded') for a in algebras):
        twins = True
        callers[1] = twin_of(rng, callers[0], algebras, pools)
        if rng.random() < 0.5:
            # name-keyed state only matters on the paths that resolve functions by name
            algebras[0]['wrapper'] = 'stub'
    faults = []
    fault_arm = rng.random() < 0.5 if arm is None else arm.get('faults', False)
    wrapper_faults = []
    if fault_arm:
        rate = rng.choice([0.05, 0.12, 0.2])
        anchors = [None, None] + list(crit_names)
        for c, prog in enumerate(callers):
            for i, _ in enumerate(prog):
                if rng.random() < rate:
                    kind = rng.choice(['interrupt', 'alloc_fail'])
                    if targets and rng.random() < 0.5:
                        # targeted: the nth time one particular line of a cache update is reached
                        q, ln = rng.choice(targets)
                        faults.append({'caller': c, 'op': i, 'kind': kind, 'anchor': None, 'skip': 0,
                                       'line': [q, ln], 'nth': rng.choice([1, 1, 1, 2, 3])})
                        continue
                    anchor = rng.choice(anchors) if rng.random() < 0.6 else None
                    u = rng.random()
                    skip = rng.randint(0, 30) if u < 0.55 else rng.randint(30, 400) if u < 0.9 else rng.randint(400, 4000)
                    faults.append({'caller': c, 'op': i, 'kind': kind, 'anchor': anchor, 'skip': skip})
        for ai, a in enumerate(algebras):
            if a.get('wrapper') and rng.random() < 0.3:
                wrapper_faults.append({'alg': ai, 'when': rng.choice(['apply', 'call']), 'at': rng.randint(1, 6)})
    if fault_arm:
        # after a failing call: the same call again, and an earlier call again ("regardless of which failing
        # calls ran before"); appended at the end so that no operation index moves
        for f in list(faults):
            prog = callers[f['caller']]
            if rng.random() < 0.5 and len(prog) < 24:
                prog.append(_copy.deepcopy(prog[f['op']]))
                if f['op'] > 0:
                    prog.append(_copy.deepcopy(prog[rng.randrange(f['op'])]))
        if wrapper_faults:
            for prog in callers:
                for _ in range(2):
                    if prog and len(prog) < 24 and rng.random() < 0.7:
                        prog.append(_copy.deepcopy(prog[rng.randrange(len(prog))]))
    world = dict(algebras=algebras, registered=registered, shared=shared,
                 warn_as_error=fault_arm and rng.random() < 0.1,
                 wrapper_faults=wrapper_faults,
                 instr=rng.random() < 0.3,
                 instr_poly=rng.random() < 0.15,
                 hold_refs=rng.random() < 0.5)
    policy = {'kind': 'seq'} if n_callers == 1 else dict(rng.choice(TWIN_POLICIES if twins else POLICIES))
    if race:
        policy = dict(rng.choice(RACE_POLICIES))
    world['twins'] = twins
    world['race'] = bool(race)
    return dict(property='C09', world=world, callers=callers, faults=faults, policy=policy, schedule=None,
                sched_seed=rng.getrandbits(48))
