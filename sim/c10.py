"""C10: code is generated at most once per operator and key pattern.

One caller drives a history that revisits a small pool of (operator, key patterns) descriptors with
coefficient types cycling through int, float, Fraction, numpy arrays, sympy symbols and mixtures,
with failing and fault-carrying calls in between.  A monitor observes generation effects:

    G  entry into the code object of any registry entry's `codegen` callable (the built-in codegen_*
       functions and the bodies of registered functions, read dynamically from alg.registry)
    K  a call of builtin compile() or exec() made from a frame whose co_filename is under kingdon/
    W  an application of the (stub) wrapper

Reference model: the set Done of descriptors whose top-level call completed successfully in this
history.  Oracle (DESIGN.md section 4): (O1) a call whose descriptor is in Done, or whose key pattern
is already `in` the operator dict (public Mapping API) just before the call, emits no G, K or W event
and finds the identical function object in the dict afterwards; (O2) after a successful call of a
single operator its key pattern is `in` the operator dict; (O3) failed or fault-carrying calls add
nothing to Done.
"""
import builtins
import random
import sys
import warnings

from . import ops
from .c09 import StubWrapper, INJECTED
from .codec import show_outcome
from .engine import Sim, SimAbort, TOOL, mon, EV


class Monitor:
    """Counts G / K / W events between reset() calls."""

    def __init__(self, kdir):
        self.kdir = kdir
        self.G = self.K = self.W = 0
        self.G2 = 0
        self.C = 0            # compile() calls alone: one per generated function
        self.total = dict(G=0, K=0, W=0, G2=0)
        self.gcodes = set()
        self._orig_compile = builtins.compile
        self._orig_exec = builtins.exec
        self.active = False

    # -- K: compile / exec called from kingdon frames -----------------------------------
    def install_builtins(self):
        """K events: compile / exec / eval called *directly* from a kingdon frame.  (Counting calls that are
        merely reached through kingdon was tried and withdrawn: sympy.simplify, which kingdon applies to the
        coefficients of every symbolic result, evaluates strings internally, so warm symbolic calls raised
        false alarms.)"""
        mon_self = self
        kdir = self.kdir
        oc, oe, ov = self._orig_compile, self._orig_exec, builtins.eval
        self._orig_eval = ov
        from .engine import HARNESS_DIR

        def from_kingdon(f):
            return f is not None and f.f_code.co_filename.startswith(kdir)

        def note():
            mon_self.K += 1
            mon_self.total['K'] += 1

        def compile(*a, **k):
            if mon_self.active and from_kingdon(sys._getframe(1)):
                note()
                mon_self.C += 1
            return oc(*a, **k)

        def exec(source, globals=None, locals=None, **k):
            f = sys._getframe(1)
            if mon_self.active and from_kingdon(f):
                note()
            if globals is None:
                globals = f.f_globals
                if locals is None:
                    locals = f.f_locals
            return oe(source, globals, locals, **k)

        def eval(source, globals=None, locals=None):
            f = sys._getframe(1)
            if mon_self.active and isinstance(source, str) and from_kingdon(f):
                note()
            if globals is None:
                globals = f.f_globals
                if locals is None:
                    locals = f.f_locals
            return ov(source, globals, locals)
        builtins.compile = compile
        builtins.exec = exec
        builtins.eval = eval

    def uninstall_builtins(self):
        builtins.compile = self._orig_compile
        builtins.exec = self._orig_exec
        if hasattr(self, '_orig_eval'):
            builtins.eval = self._orig_eval

    # -- G: entry into codegen callables -------------------------------------------------
    def watch_registry(self, world):
        """(Re-)reads alg.registry and enables PY_START on the code objects of all codegen callables."""
        for alg in world.algebras:
            if alg is None:
                continue
            for od in list(alg.registry.values()):
                cg = getattr(od, 'codegen', None)
                code = getattr(cg, '__code__', None)
                if code is not None and code not in self.gcodes:
                    self.gcodes.add(code)
                    try:
                        cur = mon.get_local_events(TOOL, code)
                        mon.set_local_events(TOOL, code, cur | EV.PY_START)
                    except Exception:
                        pass

    def watch_diagnostic(self, codes):
        self.g2codes = set()
        # the generation drivers of kingdon.codegen count as G events too (looked up by name; if they are
        # renamed the registry's codegen callables and the K events remain)
        for c in codes:
            if c.co_filename.endswith('codegen.py') and c.co_qualname in ('do_codegen', 'do_compile', 'lambdify', 'func_builder'):
                if c not in self.gcodes:
                    self.gcodes.add(c)
                    cur = mon.get_local_events(TOOL, c)
                    mon.set_local_events(TOOL, c, cur | EV.PY_START)
        for c in codes:
            if c.co_filename.endswith(('codegen.py', 'taperecorder.py')) and c not in self.gcodes:
                self.g2codes.add(c)
                cur = mon.get_local_events(TOOL, c)
                mon.set_local_events(TOOL, c, cur | EV.PY_START)

    def on_py_start(self, code, offset):
        if not self.active:
            return
        if code in self.gcodes:
            self.G += 1
            self.total['G'] += 1
        else:
            self.G2 += 1
            self.total['G2'] += 1

    def on_wrap(self):
        if self.active:
            self.W += 1
            self.total['W'] += 1

    def reset(self):
        self.G = self.K = self.W = self.G2 = self.C = 0

    def counts(self):
        return dict(G=self.G, K=self.K, W=self.W)


class CountingWrapper(StubWrapper):
    def __init__(self, run, ai, faults, monitor_ref):
        super().__init__(run, ai, faults)
        self.monitor_ref = monitor_ref

    def __call__(self, func):
        m = self.monitor_ref()
        if m is not None:
            m.on_wrap()
        return super().__call__(func)


def value_kind_of_args(op):
    from .codec import kind_of
    kinds = set()

    def walk(r):
        for v in r.get('vals', []) or []:
            kinds.add(kind_of(v))
        for _, v in r.get('items', []) or []:
            kinds.add(kind_of(v))
        if r.get('k') == 'num':
            kinds.add(kind_of(r['v']))
        if r.get('k') == 'sym':
            kinds.add('sympy')
        if r.get('cont') == 'nd':
            kinds.add('ndarray-container')
        if r.get('cont') == 'tuple':
            kinds.add('tuple-container')
        for x in r.get('of', []) if isinstance(r.get('of'), list) else ([r['of']] if r.get('of') else []):
            walk(x)
    for a in op.get('args', []):
        walk(a)
    return tuple(sorted(kinds))


class Run10:
    def __init__(self, trace):
        self.trace = trace
        self.sim = None
        self.world = None
        self.violations = []
        self.wrapper_faulted = set()
        self.done = {}            # descriptor -> coefficient kinds of the successful calls so far
        self.stats = dict(ops=0, first=0, warm_checked=0, warm_after_other_kind=0, warm_after_failure=0,
                          failed=0, faulted=0, warm_by_membership=0, first_events=[], regen_after_failure=0)
        self.failed_desc = set()
        self.matrix = {}
        self.setup_error = None
        self.monitor = None

    def descriptor(self, op, args):
        from kingdon import MultiVector

        def kd(a):
            if isinstance(a, MultiVector):
                return tuple(int(k) for k in a.keys())
            if isinstance(a, (list, tuple)):
                return ('seq',) + tuple(kd(x) for x in a)
            if callable(a):
                try:
                    return ('callable', kd(a()))        # zero-argument callable operand: look at what it returns
                except Exception:
                    return ('callable',)
            return ('num',)
        sym = None
        if op['kind'] == 'meth':
            # Python-level composites (pow, exp, normalized, ...) chain several operator calls; a symbolic
            # intermediate result is stored without its vanishing coefficients, so the key patterns of the
            # inner calls are a function of the operand patterns *and* of which symbolic coefficients are
            # exactly zero: both belong to the descriptor
            def zeros(a):
                out = []
                for j, v in enumerate(a.values()):
                    try:
                        if bool(v == 0):
                            out.append(j)
                    except Exception:
                        pass
                return tuple(out)
            sym = tuple((True, zeros(a)) if a.issymbolic else False for a in args if isinstance(a, MultiVector))
            if not any(sym):
                sym = False
        return (op['alg'], op['kind'], op.get('op') or op.get('fn'), op.get('form'),
                repr(op.get('params')), tuple(kd(a) for a in args), sym)

    def cache_entries(self):
        """All (operator dict, key pattern) pairs visible through the public Mapping API."""
        out = set()
        for alg in self.world.algebras:
            if alg is None:
                continue
            for od in list(alg.registry.values()):
                try:
                    for k in list(od):
                        out.add((id(od), k if isinstance(k, tuple) else repr(k)))
                except Exception:
                    pass
        return out

    def opdict_and_keys(self, op, args):
        """(operator dict, keys_in) for calls of a single operator; None otherwise."""
        from kingdon import MultiVector
        alg = self.world.algebras[op['alg']]
        if op['kind'] not in ('bin', 'un', 'reg'):
            return None
        if op.get('form') == 'infix' and args and not isinstance(args[0], MultiVector):
            return None       # reflected operators may swap their operands (e.g. __radd__ = add)
        if any(not isinstance(a, MultiVector) and not isinstance(a, (int, float, complex)) and
               type(a).__name__ not in ('Fraction', 'float64', 'int64') for a in args):
            if not all(isinstance(a, MultiVector) or hasattr(a, '__float__') or hasattr(a, 'free_symbols') for a in args):
                return None
        if any(isinstance(a, MultiVector) and not isinstance(a.keys(), tuple) for a in args):
            return None          # keys that are not a tuple cannot be looked up through the Mapping API
        keys = [tuple(a.keys()) if isinstance(a, MultiVector) else (0,) for a in args]
        if op['kind'] == 'bin':
            return getattr(alg, op['op']), (keys[0], keys[1])
        if op['kind'] == 'un':
            if not isinstance(args[0], MultiVector):
                return None
            return getattr(alg, op['op']), keys[0]
        od = self.world.ns[op['alg']].get(op['fn'])
        if od is None:
            return None
        return od, tuple(keys)

    def body(self, prog, faults_by_op):
        def run(t):
            sim, m, world = self.sim, self.monitor, self.world
            import time as _time
            t_start = _time.time()
            for i, op in enumerate(prog):
                if _time.time() - t_start > self.trace.get('wall_limit', 40):
                    self.stats['truncated_by_wall_clock'] = i      # verdicts on the executed prefix stand
                    return
                if op['kind'] == 'register':
                    world.register(op['alg'], op['fn'])
                    m.watch_registry(world)
                    # a re-registered function is a new operator: forget what was learnt about the old one
                    self.done = {d: v for d, v in self.done.items()
                                 if not (d[0] == op['alg'] and d[1] == 'reg' and d[2] == op['fn'])}
                    continue
                # operands are built outside the observation window (their construction may use operators)
                try:
                    args = ops.build_operands(world, op['alg'], op.get('args', []))
                except SimAbort:
                    raise
                except BaseException as e:
                    self.stats['failed'] += 1
                    continue
                try:
                    D = self.descriptor(op, args)
                    odk = self.opdict_and_keys(op, args)
                except Exception:
                    D, odk = None, None
                cached_before = False
                func_before = None
                if odk is not None:
                    try:
                        cached_before = odk[1] in odk[0]
                        if cached_before:
                            func_before = odk[0][odk[1]][1]
                    except Exception:
                        cached_before = False
                m.watch_registry(world)
                t.atomic += 1
                try:
                    entries_before = self.cache_entries()
                finally:
                    t.atomic -= 1
                m.reset()
                m.active = True
                sim.begin_op(t, i, faults_by_op.get(i))
                out, exc = ops.outcome_of(lambda: ops.apply_op(world, op, args))
                f = sim.end_op(t)
                m.active = False
                if isinstance(exc, SimAbort):
                    raise exc
                counts = m.counts()
                compiled = m.C
                faulted = bool(f and f['fired']) or ((t.tid, i) in self.wrapper_faulted)
                ok = out[0] != 'exc'
                if ok and not faulted and compiled:
                    # O4: every function compiled during a successful call is cached under a new (operator, key
                    # pattern) entry - no generation for a pattern that is cached already, none that is thrown away
                    t.atomic += 1
                    try:
                        new_entries = len(self.cache_entries() - entries_before)
                    finally:
                        t.atomic -= 1
                    self.stats['o4_checked'] = self.stats.get('o4_checked', 0) + 1
                    if new_entries != compiled:
                        self.violations.append(dict(
                            clause='O4', op=i, desc=op, events=counts,
                            expected='every function compiled during a successful call is cached under a new (operator, '
                                     'key pattern) entry', got=f'{compiled} functions compiled, {new_entries} new cache entries'))
                        return
                self.stats['ops'] += 1
                sim.h.update(repr((i, counts, out[0], out[1] if out[0] == 'exc' else None)).encode())
                kinds = value_kind_of_args(op)
                warm = (D is not None and D in self.done) or cached_before
                if warm:
                    self.stats['warm_checked'] += 1
                    if D in self.done and kinds not in self.done[D]:
                        self.stats['warm_after_other_kind'] += 1
                    if D in self.failed_desc:
                        self.stats['warm_after_failure'] += 1
                    if cached_before and D not in self.done:
                        self.stats['warm_by_membership'] += 1
                    name = op.get('op') or op.get('fn')
                    for kk in kinds or ('none',):
                        self.matrix[f'{name}|{kk}'] = self.matrix.get(f'{name}|{kk}', 0) + 1
                    if counts['G'] or counts['K'] or counts['W']:
                        self.violations.append(dict(
                            clause='O1', op=i, desc=op, events=counts,
                            why='descriptor completed successfully earlier in this history' if D in self.done
                            else 'key pattern was already in the operator dict before the call',
                            expected='no code generation, compilation or wrapper application',
                            got=f'{counts} during a warm call ({show_outcome(out)[:80]})'))
                    elif func_before is not None and odk is not None:
                        try:
                            same = odk[0][odk[1]][1] is func_before
                        except Exception:
                            same = True
                        if not same:
                            self.violations.append(dict(clause='O1', op=i, desc=op, events=counts,
                                                        expected='the cached function object is reused',
                                                        got='another function object in the operator dict'))
                else:
                    self.stats['first'] += 1
                    if len(self.stats['first_events']) < 5:
                        self.stats['first_events'].append(dict(counts, op=op.get('op') or op.get('fn')))
                    if D in self.failed_desc and ok:
                        self.stats['regen_after_failure'] += 1
                if ok and not faulted:
                    if D is not None:
                        self.done.setdefault(D, set()).add(kinds)
                    if odk is not None:
                        try:
                            present = odk[1] in odk[0]
                        except Exception:
                            present = True
                        if not present:
                            self.violations.append(dict(clause='O2', op=i, desc=op,
                                                        expected='key pattern is in the operator dict after a successful call',
                                                        got='not in the operator dict'))
                else:
                    self.stats['failed'] += 1
                    if faulted:
                        self.stats['faulted'] += 1
                    if D is not None:
                        self.failed_desc.add(D)
                if self.violations:
                    return
        return run

    def execute(self, keep_events=0):
        tr = self.trace
        w = tr['world']
        warnings.resetwarnings()
        warnings.simplefilter('error' if w.get('warn_as_error') else 'ignore')
        rng = random.Random(tr.get('sched_seed', 0))
        sim = Sim(rng, policy={'kind': 'seq'}, schedule=None, instr=False,
                  max_steps=tr.get('max_steps', 6_000_000), keep_events=keep_events,
                  atomic_files=('polynomial.py',))
        wf = [dict(f) for f in w.get('wrapper_faults', [])]
        self.stubs = {}
        import weakref
        mref = lambda: self.monitor

        def wrapper_factory(ai):
            s = CountingWrapper(self, ai, wf, mref)
            self.stubs[ai] = s
            return s
        try:
            self.world = ops.World(w, wrapper_factory=wrapper_factory)
            self.world.register_all()
        except BaseException as e:
            self.setup_error = f'{type(e).__name__}: {e}'
            return self
        self.ncodes = sim.install()
        self.monitor = Monitor(sim.kdir)
        mon.register_callback(TOOL, EV.PY_START, self.monitor.on_py_start)
        self.monitor.watch_registry(self.world)
        self.monitor.watch_diagnostic(sim.codes)
        self.monitor.install_builtins()
        try:
            self.sim = sim
            fb = {f['op']: f for f in tr.get('faults', []) if f['caller'] == 0}
            sim.spawn(self.body(tr['callers'][0], fb))
            sim.run()
        finally:
            self.sim = None
            self.monitor.uninstall_builtins()
            for c in list(self.monitor.gcodes) + list(getattr(self.monitor, 'g2codes', ())):
                try:
                    mon.set_local_events(TOOL, c, 0)
                except Exception:
                    pass
            mon.register_callback(TOOL, EV.PY_START, None)
            sim.uninstall()
        self.simres = sim
        return self

    def result(self):
        sim = getattr(self, 'simres', None)
        res = dict(violations=self.violations, setup_error=self.setup_error, stats=self.stats,
                   matrix=self.matrix)
        if sim is not None:
            res.update(abort=sim.abort, steps=sim.nsteps, digest=sim.digest(),
                       faults_fired=list(sim.faults_fired), events=dict(self.monitor.total),
                       descriptors=len(self.done), ncodes=self.ncodes,
                       wrapper_applied={ai: s.applied for ai, s in self.stubs.items()})
        return res
