"""Multi-process batch driver shared by all checks: seeded runs, determinism self-test,
violation handling (minimise, replay twice, report), evidence file."""
import concurrent.futures as cf
import json
import multiprocessing
import os
import random
import sys
import time
import traceback

VERIF = os.path.dirname(os.path.dirname(os.path.abspath(__file__)))
EXIT_OK, EXIT_VIOLATION, EXIT_HARNESS = 0, 1, 2

_MOD = None
_TIER = None


def run_seed_of(seed, index):
    return seed * 1_000_003 + index


def _worker_init(modname, tier):
    global _MOD, _TIER
    import importlib
    _MOD = importlib.import_module(modname)
    _TIER = tier
    _MOD.worker_init(tier)


def _task(seed, indices):
    out = []
    for i in indices:
        t0 = time.time()
        try:
            s = _MOD.run_one(seed, i, _TIER)
        except BaseException:
            s = dict(harness_error=traceback.format_exc())
        s['index'] = i
        s['wall'] = time.time() - t0
        out.append(s)
    return out


def load_known_findings():
    p = os.path.join(VERIF, 'known_findings.json')
    if not os.path.exists(p):
        return {'open': [], 'fixed': []}
    with open(p) as f:
        return json.load(f)


def drive(mod, prop, tier, seed, budget_s, max_runs, selftest_n, nworkers=None, chunk=2, log=print, survey=False):
    """Runs the batch; returns (exit_code, evidence_dict)."""
    t_start = time.time()
    nworkers = nworkers or int(os.environ.get('VERIF_WORKERS', '0')) or min(16, os.cpu_count() or 4)
    ctx = multiprocessing.get_context('fork')
    summaries = {}
    repeats = {}
    harness_errors = []
    violating = []
    known_hits = {}
    known0 = load_known_findings()
    open_sigs = {k.get('signature'): k for k in known0.get('open', []) if k.get('property') == prop}
    submitted = 0
    stop = False
    with cf.ProcessPoolExecutor(max_workers=nworkers, mp_context=ctx, initializer=_worker_init,
                                initargs=(mod.__name__, tier)) as ex:
        pending = set()
        # determinism self-test: the first `selftest_n` runs are executed twice, by different tasks
        st_chunks = [list(range(i, min(i + chunk, selftest_n))) for i in range(0, selftest_n, chunk)]
        for ch in st_chunks:
            fut = ex.submit(_task, seed, ch)
            fut.kind = 'repeat'
            pending.add(fut)
        next_index = 0
        nd = mod.n_directed() if hasattr(mod, 'n_directed') else 0
        for k in range(nd):
            fut = ex.submit(_task, seed, [-1 - k])
            fut.kind = 'main'
            pending.add(fut)
        try:
            while True:
                while (not stop and len(pending) < nworkers + 4 and next_index < max_runs
                       and time.time() - t_start < budget_s):
                    ch = list(range(next_index, min(next_index + chunk, max_runs)))
                    next_index += len(ch)
                    fut = ex.submit(_task, seed, ch)
                    fut.kind = 'main'
                    pending.add(fut)
                    submitted += len(ch)
                if not pending:
                    break
                if time.time() - t_start >= budget_s or stop:
                    for fut in list(pending):
                        if fut.cancel():          # not started yet: its runs are simply not executed
                            pending.discard(fut)
                    if not pending:
                        break
                done, pending = cf.wait(pending, return_when=cf.FIRST_COMPLETED, timeout=600)
                if not done:
                    harness_errors.append('no task completed within 600 s')
                    break
                for fut in done:
                    for s in fut.result():
                        if s.get('harness_error'):
                            harness_errors.append(f"run {s['index']}: {s['harness_error']}")
                            continue
                        if fut.kind == 'repeat':
                            repeats[s['index']] = s
                        else:
                            summaries[s['index']] = s
                            if s.get('violations'):
                                sig = s['violations'][0].get('signature')
                                if sig in open_sigs and not survey:
                                    known_hits.setdefault(sig, []).append(s['index'])   # listed finding: keep exploring
                                    continue
                                violating.append(s['index'])
                                if not survey:
                                    stop = True
                if harness_errors and len(harness_errors) > 5:
                    stop = True
        except cf.process.BrokenProcessPool as e:
            harness_errors.append(f'worker process died: {e}')
    wall = time.time() - t_start

    mismatches = []
    incomparable = 0
    for i, r in repeats.items():
        s = summaries.get(i)
        if s is None:
            continue
        if r.get('trace_hash') != s.get('trace_hash') and (r.get('oracle', {}).get('timeouts') or
                                                           s.get('oracle', {}).get('timeouts')):
            incomparable += 1        # an oracle wall-clock limit edited the two traces differently
            continue
        if r.get('digest') != s.get('digest') or bool(r.get('violations')) != bool(s.get('violations')):
            mismatches.append(i)
    selftest = dict(seeds=len([i for i in repeats if i in summaries]), mismatches=len(mismatches),
                    incomparable_because_of_oracle_timeouts=incomparable,
                    mismatching_runs=mismatches[:10])

    walls = sorted(((s.get('wall', 0), i) for i, s in summaries.items()), reverse=True)[:5]
    cov = mod.aggregate(list(summaries.values()), tier)
    cov['slowest_runs'] = [[round(w, 1), i] for w, i in walls]
    cov['determinism_selftest'] = selftest
    if hasattr(mod, 'post_check'):
        msg = mod.post_check(cov)
        if msg:
            harness_errors.append(msg)
    cov['runs_per_hour'] = int(len(summaries) / max(wall, 1e-6) * 3600)
    cov['workers'] = nworkers
    evidence = dict(property_id=prop, tier=tier, seed=seed, level='exploration', coverage=cov,
                    assumptions=mod.ASSUMPTIONS, wall_s=round(wall, 2), violations=0)

    evidence['_digests'] = {str(i): [s_.get('digest'), bool(s_.get('violations')), s_.get('trace_hash'),
                                      (s_.get('oracle') or {}).get('timeouts', 0)] for i, s_ in summaries.items()}
    code = EXIT_OK
    if mismatches:
        harness_errors.append(f'determinism self-test failed for runs {mismatches[:10]}')
    known = load_known_findings()
    if survey:
        for idx in sorted(violating):
            v = summaries[idx]['violations'][0]
            log(f"SURVEY run {idx}: {v.get('signature') or v.get('clause')} {json.dumps(v.get('desc'))[:160]} expected={str(v.get('expected'))[:80]} got={str(v.get('got'))[:80]}")
        log(f'SURVEY: {len(violating)} violating runs of {len(summaries)}')
        for h in harness_errors[:8]:
            log('HARNESS-ERROR: ' + h.strip()[-600:])
        return (EXIT_VIOLATION if violating else EXIT_OK), evidence, harness_errors
    if violating:
        idx = min(violating)
        s = summaries[idx]
        log(f'violation in run {idx} (seed {seed}); minimising ...')
        try:
            status, path, info = mod.report_violation(s, seed, idx, known, log=log)
        except BaseException:
            harness_errors.append('minimisation/replay failed: ' + traceback.format_exc())
            status = 'error'
        if status == 'violation':
            evidence['violations'] = 1
            evidence['coverage']['violation'] = info
            print(f'VIOLATION property={prop} replay={path}', flush=True)
            code = EXIT_VIOLATION
        elif status == 'known':
            print(f'KNOWN-FINDING: property={prop} {info}', flush=True)
        elif status == 'unreproducible':
            harness_errors.append(f'run {idx} reported a violation that did not reproduce on replay: {info}')
    for sig, idxs in sorted(known_hits.items()):
        k = open_sigs[sig]
        idx = min(idxs)
        path = None
        try:
            path = mod.write_replay(summaries[idx], seed, idx, tag='known')
        except Exception:
            pass
        print(f"KNOWN-FINDING: property={prop} {k.get('what', sig)} [{len(idxs)} of {len(summaries)} runs; "
              f"example replay={path}]", flush=True)
    evidence['coverage']['known_findings_hit'] = {sig: len(i) for sig, i in known_hits.items()}
    if harness_errors and code == EXIT_OK:
        code = EXIT_HARNESS
    if harness_errors:
        evidence['coverage']['harness_errors'] = harness_errors[:10]
        for h in harness_errors[:10]:
            log('HARNESS-ERROR: ' + h.strip().splitlines()[-1])
    return code, evidence, harness_errors


def write_evidence(prop, evidence):
    os.makedirs(os.path.join(VERIF, 'evidence'), exist_ok=True)
    evidence = {k: v for k, v in evidence.items() if not k.startswith('_')}
    p = os.path.join(VERIF, 'evidence', f'{prop}.json')
    tmp = p + '.tmp'
    with open(tmp, 'w') as f:
        json.dump(evidence, f, indent=1, sort_keys=True, default=str)
    os.replace(tmp, p)
    return p
