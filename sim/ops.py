"""Building algebras and operands from pure-data descriptions and performing one operation.

The same functions are used by the system under test (inside the simulator) and by the oracle
(in a pristine forked process on a freshly created algebra), so "the same call" means literally
the same Python expression applied to operands rebuilt from the same recipe.
"""
import operator

import numpy as np
import sympy

from . import bodies
from .codec import dec, snap_values

INFIX = {
    'gp': operator.mul, 'sw': operator.rshift, 'ip': operator.or_, 'op': operator.xor,
    'rp': operator.and_, 'proj': operator.matmul, 'add': operator.add, 'sub': operator.sub,
    'div': operator.truediv,
}
UNARY_INFIX = {'reverse': operator.invert, 'neg': operator.neg}

BINARY_OPS = ['gp', 'sw', 'cp', 'acp', 'ip', 'sp', 'lc', 'rc', 'op', 'rp', 'proj', 'add', 'sub', 'div']
UNARY_OPS = ['inv', 'neg', 'reverse', 'involute', 'conjugate', 'sqrt', 'polarity', 'unpolarity',
             'hodge', 'unhodge', 'normsq', 'outerexp', 'outersin', 'outercos', 'outertan']


class World:
    """Live objects of one simulated world (or of one oracle evaluation)."""

    def __init__(self, spec, wrapper_factory=None, only_alg=None):
        import kingdon
        self.kingdon = kingdon
        self.spec = spec
        self.algebras = []
        self.wrappers = []
        for i, a in enumerate(spec['algebras']):
            if only_alg is not None and i != only_alg:
                self.algebras.append(None)
                self.wrappers.append(None)
                continue
            w = None
            if a.get('wrapper'):
                w = wrapper_factory(i) if wrapper_factory else PlainWrapper()
                if isinstance(w, PlainWrapper):
                    w.kind = a.get('wrapper')
            self.wrappers.append(w)
            self.algebras.append(build_algebra(a, w))
        self.ns = [dict() for _ in spec['algebras']]          # per algebra: body id -> registered object
        self.regspec = {}                                      # (alg, body id) -> registration spec
        self.shared = {}                                       # index -> operand object
        self.fn_cache = {}
        import threading
        self._tls = threading.local()
        self.flip = {}                                         # (algebra, body) -> second registration, other mode
        self.prev_results = {}                                 # (caller, op index) -> returned MultiVector
        for r in spec.get('registered', []):
            self.regspec[(r['alg'], r['body'])] = r

    def register(self, ai, bid):
        r = self.regspec.get((ai, bid), {'alg': ai, 'body': bid})
        entry = bodies.LIB[bid]
        # the same Python function object is registered again on re-registration, and - for bodies that call
        # no other registered function - on every algebra of the world
        ck = bid if not (entry['deps'] or entry.get('selfref')) else (ai, bid)
        if ck not in self.fn_cache:
            self.fn_cache[ck] = entry['factory'](self.ns[ai])
        fn = self.fn_cache[ck]
        kw = {}
        if r.get('name') is not None:
            kw['name'] = r['name']
        if r.get('symbolic'):
            kw['symbolic'] = True
        alg = self.algebras[ai]
        style = r.get('style', 'call')
        if style == 'deco' and kw:
            obj = alg.register(**kw)(fn)
        else:
            obj = alg.register(fn, **kw)
        self.ns[ai][bid] = obj
        return obj

    def flip_handle(self, ai, bid):
        """A second registration of the *same function object* with the other value of `symbolic`: the user holds
        both handles; each must behave as it does on an algebra where it is the only registration."""
        if (ai, bid) not in self.flip:
            r = self.regspec.get((ai, bid), {'alg': ai, 'body': bid})
            entry = bodies.LIB[bid]
            ck = bid if not (entry['deps'] or entry.get('selfref')) else (ai, bid)
            if ck not in self.fn_cache:
                self.fn_cache[ck] = entry['factory'](self.ns[ai])
            kw = {'symbolic': not r.get('symbolic')}
            if r.get('name') is not None:
                kw['name'] = r['name']
            self.flip[(ai, bid)] = self.algebras[ai].register(self.fn_cache[ck], **kw)
        return self.flip[(ai, bid)]

    def register_all(self, ai=None, only=None):
        for r in self.spec.get('registered', []):
            if ai is not None and r['alg'] != ai:
                continue
            if only is not None and r['body'] not in only:
                continue
            if self.algebras[r['alg']] is None:
                continue
            if r['body'] not in self.ns[r['alg']]:
                self.register(r['alg'], r['body'])

    def shared_operand(self, i):
        if i not in self.shared:
            s = self.spec['shared'][i]
            self.shared[i] = build_operand(self, s['alg'], s['recipe'])
        return self.shared[i]


class PlainWrapper:
    """Semantics-preserving stand-in for a JIT decorator (used by the oracle)."""

    def __init__(self):
        self.applied = 0
        self.calls = 0

    def __call__(self, func):
        self.applied += 1
        if getattr(self, 'kind', 'stub') == 'ident':
            return func

        def wrapped(*args):
            self.calls += 1
            return func(*args)
        if getattr(self, 'kind', 'stub') == 'opaque':
            import functools
            return functools.partial(wrapped)
        wrapped.__name__ = getattr(func, '__name__', 'wrapped')
        wrapped.__wrapped__ = func
        return wrapped


def build_algebra(a, wrapper=None):
    from kingdon import Algebra
    kw = {}
    for k in ('cse', 'graded', 'start_index'):
        if a.get(k) is not None:
            kw[k] = a[k]
    if a.get('symbolcls') == 'sympy':
        kw['codegen_symbolcls'] = sympy.Symbol
    if a.get('simp_func') == 'ident':
        kw['simp_func'] = lambda v: v          # user-replaced simplification/filter function
    if wrapper is not None:
        kw['wrapper'] = wrapper
    if a.get('name'):
        return Algebra.fromname(a['name'], **kw)
    if a.get('signature') is not None:
        return Algebra(signature=list(a['signature']), **kw)
    return Algebra(a.get('p', 0), a.get('q', 0), a.get('r', 0), **kw)


def _vals(vs, container='list'):
    out = [dec(v) for v in vs]
    if container == 'nd':
        return np.array(out)
    if container == 'tuple':
        return tuple(out)
    return out


def _key(k):
    return k


def build_operand(world, ai, r):
    """Build one operand on algebra `ai` from recipe `r`."""
    from kingdon import MultiVector
    alg = world.algebras[ai]
    k = r['k']
    if k == 'kv':
        return alg.multivector(keys=tuple(r['keys']), values=_vals(r['vals'], r.get('cont', 'list')))
    if k == 'fkv':
        keys = tuple(r['keys'])
        if r.get('keys_as') == 'list':
            keys = list(keys)                 # fromkeysvalues does not normalise its arguments
        elif r.get('keys_as') == 'nd':
            keys = np.array(keys, dtype=int)
        return MultiVector.fromkeysvalues(alg, keys, _vals(r['vals'], r.get('cont', 'list')))
    if k == 'kw':
        return alg.multivector(**{b: dec(v) for b, v in r['items']})
    if k == 'map':
        return alg.multivector({kk: dec(v) for kk, v in zip(r['keys'], r['vals'])})
    if k == 'gr':
        ctor = r.get('ctor', 'multivector')
        if ctor == 'multivector':
            return alg.multivector(values=_vals(r['vals'], r.get('cont', 'list')), grades=tuple(r['grades']))
        return getattr(alg, ctor)(_vals(r['vals'], r.get('cont', 'list')))
    if k == 'sym':
        kw = {'name': r['name']}
        if r.get('keys') is not None:
            kw['keys'] = tuple(r['keys'])
        if r.get('grades') is not None:
            kw['grades'] = tuple(r['grades'])
        return alg.multivector(**kw)
    if k == 'bl':
        acc = None
        for c, b in r['terms']:
            blade = alg.blades[b] if r.get('via', 'item') == 'item' else getattr(alg.blades, b)
            t = dec(c) * blade
            acc = t if acc is None else acc + t
        return acc
    if k == 'num':
        return dec(r['v'])
    if k == 'dense':
        vals = _vals(r['vals'], r.get('cont', 'list'))
        if r.get('layout', 'canon') == 'canon':
            return alg.multivector(values=vals)
        return alg.multivector(keys=tuple(range(2 ** alg.d)), values=vals)
    if k == 'same':
        return build_operand(world, ai, r['of'])     # (only reached when there is no previous operand)
    if k == 'sh':
        return world.shared_operand(r['i'])
    if k == 'call0':
        inner = r['of']
        return lambda: build_operand(world, ai, inner)
    if k == 'list':
        seq = [build_operand(world, ai, x) for x in r['of']]
        return tuple(seq) if r.get('tuple') else seq
    if k == 'opres':
        out = perform_raw(world, r['op'])
        return out
    if k == 'prev':
        # the multivector an earlier operation of this caller returned (the very object, when the caller
        # kept it); on a fresh algebra the earlier operation is simply evaluated again
        got = getattr(world, 'prev_results', {}).get((getattr(world._tls, 'caller', None), r['i']))
        if got is not None:
            return got
        return perform_raw(world, r['op'])
    if k == 'other':          # an operand that lives in another algebra (mixed-algebra calls must be rejected)
        return build_operand(world, r['alg'], r['of'])
    raise ValueError(f'unknown recipe {r!r}')


def perform_raw(world, op):
    """Perform one operation and return the raw result (exceptions propagate)."""
    ai = op['alg']
    alg = world.algebras[ai]
    kind = op['kind']
    if kind == 'register':
        world.register(ai, op['fn'])
        return None
    args = build_operands(world, ai, op.get('args', []))
    return apply_op(world, op, args)


def build_operands(world, ai, recipes):
    args = []
    for r in recipes:
        if r.get('k') == 'same' and args:
            args.append(args[-1])           # the very same object once more (x * x, x >> x)
        else:
            args.append(build_operand(world, ai, r))
    return args


def apply_op(world, op, args):
    ai = op['alg']
    alg = world.algebras[ai]
    kind = op['kind']
    form = op.get('form', 'method')
    if kind == 'id':
        return args[0]
    if kind == 'bin':
        a, b = args
        name = op['op']
        if form == 'infix':
            return INFIX[name](a, b)
        if form == 'alg':
            return getattr(alg, name)(a, b)
        return getattr(a, name)(b)
    if kind == 'un':
        (a,) = args
        name = op['op']
        if form == 'infix':
            return UNARY_INFIX[name](a)
        if form == 'alg':
            return getattr(alg, name)(a)
        return getattr(a, name)()
    if kind == 'meth':
        a = args[0]
        name = op['op']
        params = op.get('params', [])
        if name == 'pow':
            return a ** dec(params[0])
        if name == 'grade':
            return a.grade(*params) if not op.get('astuple') else a.grade(tuple(params))
        if name in ('dual', 'undual'):
            return getattr(a, name)(*params)
        if name == 'asfullmv':
            return a.asfullmv(canonical=bool(params[0])) if params else a.asfullmv()
        if name == 'getblade':
            return getattr(a, params[0])
        if name == 'index':
            return a[tuple(params)] if len(params) != 1 else a[params[0]]
        if name == 'deepcopy':
            import copy as _copy
            return _copy.deepcopy(a)
        if name == 'copy':
            import copy as _copy
            return _copy.copy(a)
        if name == 'pickle':
            import pickle as _pickle
            return _pickle.loads(_pickle.dumps(a))
        if name == 'map':
            if not params:
                return a.map(lambda v: 2 * v)
            if params[0] == 'tosym':       # numeric coefficients become symbolic ones
                import sympy as _sp
                return a.map(lambda k, v: v * _sp.Symbol(f'm{k}') + 1)
            if params[0] == 'tonum':       # symbolic coefficients become plain numbers (one of them zero)
                return a.map(lambda k, v: (k * 7) % 5 - 1)
            return a.map(lambda k, v: (k + 1) * v)
        if name == 'asmatrix':
            return a.asmatrix()
        return getattr(a, name)()       # norm, normalized, exp, filter, ...
    if kind == 'algprop':
        # objects the algebra hands out (cached basis blades, frames): they are shared with every caller
        name = op['op']
        if name == 'pss':
            return alg.pss
        if name == 'frame':
            return list(alg.frame)
        if name == 'reciprocal_frame':
            return list(alg.reciprocal_frame)
        if name == 'blade':
            return alg.blades[op['params'][0]]
        if name == 'blades_grade':
            return list(alg.blades.grade(*op['params']).values())
        raise ValueError(name)
    if kind == 'reg':
        if op.get('mode') == 'flip':
            # only what the function calls is registered first; the function itself through its second handle
            for b in bodies.closure([op['fn']]):
                if b != op['fn'] and b not in world.ns[ai]:
                    world.register(ai, b)
            return world.flip_handle(ai, op['fn'])(*args)
        if op['fn'] not in world.ns[ai]:
            for b in bodies.closure([op['fn']]):
                if b not in world.ns[ai]:
                    world.register(ai, b)
        return world.ns[ai][op['fn']](*args)
    if kind == 'symcall':
        target = args[0]
        call = op['call']
        vals = [dec(v) for v in call['vals']]
        if call['mode'] in ('autopos', 'autokw'):
            # as many values as the target has free symbols (read from the target itself)
            names = sorted(str(x) for x in target.free_symbols)
            vals = vals[:len(names)]
            if call['mode'] == 'autokw':
                return target(**dict(zip(names, vals)))
            return target(*vals)
        if call['mode'] == 'kw':
            return target(**dict(zip(call['names'], vals)))
        return target(*vals)
    raise ValueError(f'unknown op kind {kind!r}')


def normalise(res):
    from kingdon import MultiVector
    if isinstance(res, MultiVector):
        vals = res.values()
        if isinstance(vals, np.ndarray):
            vals = vals.copy()
        else:
            vals = [v.copy() if isinstance(v, np.ndarray) else v for v in vals]
        return ('mv', tuple(res.keys()), vals)
    if isinstance(res, (list, tuple)):
        return ('seq', type(res).__name__, [normalise(r) for r in res])
    if type(res).__name__ == 'TapeRecorder':
        return ('val', f'TapeRecorder({res.expr})')
    if isinstance(res, np.ndarray):
        return ('val', res.copy())
    if isinstance(res, sympy.MatrixBase):
        return ('val', [sympy.sympify(x) for x in res])
    return ('val', res)


def outcome_of(fn):
    try:
        res = fn()
        return normalise(res), None
    except BaseException as e:       # KeyboardInterrupt / MemoryError are injected faults
        return ('exc', type(e).__name__), e


def collect_mvs(obj, out):
    """All MultiVector objects reachable through lists/tuples (for immutability snapshots)."""
    from kingdon import MultiVector
    if isinstance(obj, MultiVector):
        out.append(obj)
    elif isinstance(obj, (list, tuple)):
        for x in obj:
            collect_mvs(x, out)
    return out


def snapshot(mv):
    return (tuple(mv.keys()), snap_values(mv.values()))      # public accessors only
