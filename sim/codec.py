"""JSON-safe encoding of coefficient values, and element-level comparison of outcomes.

Input values (what the generator emits, what replay files contain):
    int                       -> int
    "n/d"                     -> fractions.Fraction(n, d)
    {"f": 1.5}                -> float
    {"s": "x1 + 2"}           -> sympy expression (sympify)
    {"nd": [...], "dt": "float64"} -> numpy array
    {"c": [re, im]}           -> complex

Outcomes are kept as Python objects inside one session (they travel between processes by pickle)
and are rendered with `show()` for reports.
"""
from fractions import Fraction
import math

import numpy as np
import sympy


def dec(v):
    if isinstance(v, bool):
        return v
    if isinstance(v, int):
        return v
    if isinstance(v, float):
        return v
    if isinstance(v, str):
        n, d = v.split('/')
        return Fraction(int(n), int(d))
    if isinstance(v, dict):
        if 'f' in v:
            return float(v['f'])
        if 's' in v:
            return sympy.sympify(v['s'])
        if 'nd' in v:
            return np.array(v['nd'], dtype=v.get('dt', 'float64'))
        if 'c' in v:
            return complex(*v['c'])
        if 'np' in v:
            return np.dtype(v.get('dt', 'float64')).type(v['np'])
    raise ValueError(f'cannot decode value {v!r}')


def kind_of(v):
    """Coefficient kind of an *encoded* input value."""
    if isinstance(v, bool):
        return 'bool'
    if isinstance(v, int):
        return 'int'
    if isinstance(v, float):
        return 'float'
    if isinstance(v, str):
        return 'Fraction'
    if 'f' in v:
        return 'float'
    if 's' in v:
        return 'sympy'
    if 'nd' in v:
        return 'ndarray'
    if 'c' in v:
        return 'complex'
    if 'np' in v:
        return 'numpy-scalar'
    return '?'


def show(v):
    """Stable printable rendering of a (decoded) value, for reports and digests.  Large sympy expressions
    are rendered by their structural hash: printing walks the tree form, which can be exponentially larger
    than the shared (DAG) form kingdon's unsimplified symbolic results have."""
    if isinstance(v, np.ndarray):
        return f'nd{v.tolist()!r}'
    if isinstance(v, (np.generic,)):
        return repr(v.item())
    if isinstance(v, sympy.Basic):
        try:
            small = v.is_Atom or sum(1 for _ in zip(sympy.preorder_traversal(v), range(60))) < 60
        except Exception:
            small = False
        if small:
            return f'sym({sympy.sstr(v)})'
        # structural hash (cached per node by sympy, so cheap even when the expression is a huge DAG whose
        # tree form - what any printer walks - is exponentially large); stable across processes under the
        # fixed PYTHONHASHSEED the checks run with
        return f'sym(<large expression, structural hash {hash(v) & 0xffffffffffff:012x}>)'
    if isinstance(v, (list, tuple)):
        return '[' + ', '.join(show(x) for x in v) + ']'
    return repr(v)


# ---------------------------------------------------------------- snapshots (I2: operands are never mutated)

def snap_values(values):
    """Deep, comparison-friendly snapshot of a MultiVector's coefficient container."""
    if isinstance(values, np.ndarray):
        return ('nd', values.dtype.str, values.shape, values.tobytes())
    out = []
    for v in values:
        if isinstance(v, np.ndarray):
            out.append(('nd', v.dtype.str, v.shape, v.tobytes()))
        elif isinstance(v, sympy.Basic):
            out.append(('s', hash(v)))        # structural hash, cached by sympy; never leaves this process
        else:
            out.append(('v', type(v).__name__, repr(v)))
    return (type(values).__name__, tuple(out))


# ---------------------------------------------------------------- comparison

RTOL = 1e-9
ATOL = 1e-11


def _is_exact(x):
    return isinstance(x, (int, Fraction)) and not isinstance(x, bool)


def _num_equal(a, b):
    if _is_exact(a) and _is_exact(b):
        return a == b
    if (_is_exact(a) and type(b) is float) or (_is_exact(b) and type(a) is float):
        # an exact coefficient on one side and a float on the other: the same operands went through other
        # arithmetic (x / Fraction(3) is not x / 3.0); only a float that *is* that rational counts as equal
        f = b if type(b) is float else a
        if math.isfinite(f):
            return a == b
    try:
        ca, cb = complex(a), complex(b)
    except Exception:
        return None
    if math.isnan(ca.real) or math.isnan(cb.real) or math.isnan(ca.imag) or math.isnan(cb.imag):
        return (math.isnan(ca.real) == math.isnan(cb.real)) and (math.isnan(ca.imag) == math.isnan(cb.imag))
    if math.isinf(ca.real) or math.isinf(cb.real) or math.isinf(ca.imag) or math.isinf(cb.imag):
        return ca == cb
    return abs(ca - cb) <= ATOL + RTOL * max(abs(ca), abs(cb))


def _sym_zero(e):
    e = sympy.sympify(e)
    if e == 0:
        return True
    try:
        s = sympy.simplify(sympy.expand(e))
        if s == 0:
            return True
    except Exception:
        s = e
    # rational-point fallback: three fixed substitution points, exact arithmetic where possible
    syms = sorted(e.free_symbols, key=lambda x: x.name)
    if not syms:
        try:
            return abs(complex(sympy.N(e, 30))) < 1e-12
        except Exception:
            return False
    pts = ([sympy.Rational(3 + 2 * i, 7 + i) for i in range(len(syms))],
           [sympy.Rational(-5 + 3 * i, 11 + 2 * i) for i in range(len(syms))],
           [sympy.Rational(13 + i, 5 + 3 * i) for i in range(len(syms))])
    for pt in pts:
        try:
            val = e.subs(dict(zip(syms, pt)))
            if abs(complex(sympy.N(val, 30))) > 1e-9:
                return False
        except Exception:
            return False
    return True


def val_equal(a, b):
    """Element-level equality of two coefficients (see DESIGN.md 2.4)."""
    if isinstance(a, (np.ndarray, np.generic)) or isinstance(b, (np.ndarray, np.generic)):
        try:
            aa, bb = np.asarray(a), np.asarray(b)
            if aa.dtype == object or bb.dtype == object:
                if aa.shape != bb.shape:
                    aa, bb = np.broadcast_arrays(aa, bb)
                return all(val_equal(x, y) for x, y in zip(aa.ravel().tolist(), bb.ravel().tolist()))
            aa, bb = np.broadcast_arrays(aa, bb)
            return bool(np.allclose(aa, bb, rtol=RTOL, atol=ATOL, equal_nan=True))
        except Exception:
            return False
    if isinstance(a, sympy.Basic) or isinstance(b, sympy.Basic):
        try:
            sa, sb = sympy.sympify(a), sympy.sympify(b)
            if sa == sb:
                return True        # structurally equal (this is also how nan, oo and zoo compare equal to themselves)
            if sa.has(sympy.nan) or sb.has(sympy.nan):
                return bool(sa.has(sympy.nan) and sb.has(sympy.nan))
            return _sym_zero(sa - sb)
        except Exception:
            return False
    if isinstance(a, (list, tuple)) or isinstance(b, (list, tuple)):
        if not (isinstance(a, (list, tuple)) and isinstance(b, (list, tuple))) or len(a) != len(b):
            return False
        return all(val_equal(x, y) for x, y in zip(a, b))
    r = _num_equal(a, b)
    if r is None:
        try:
            return bool(a == b)
        except Exception:
            return False
    return r


def is_zero(v):
    return val_equal(v, 0)


def outcome_equal(a, b):
    """Outcomes: ('exc', typename) | ('mv', keys, values) | ('seq', [outcomes]) | ('val', v).

    Returns (equal, storage_only_difference).  A blade that is not stored reads as 0; the second item says
    whether the two sides, equal on every blade, store their blades differently: False, 'order' or 'blades'.
    """
    if a[0] != b[0]:
        return False, False
    if a[0] == 'exc':
        return a[1] == b[1], False
    if a[0] == 'val':
        return val_equal(a[1], b[1]), False
    if a[0] == 'seq':
        if a[1] != b[1] or len(a[2]) != len(b[2]):
            return False, False
        eq, st = True, False
        for x, y in zip(a[2], b[2]):
            e, s = outcome_equal(x, y)
            eq = eq and e
            st = 'blades' if 'blades' in (st, s) else (st or s)
        return eq, st
    if a[0] == 'mv':
        da, db = _mvdict(a), _mvdict(b)
        if da is None or db is None:
            return False, False
        for k in set(da) | set(db):
            if not val_equal(da.get(k, 0), db.get(k, 0)):
                return False, False
        # 'order': the same blades stored in another order; 'blades': other blades stored (all extra ones zero)
        if tuple(a[1]) == tuple(b[1]):
            storage = False
        elif set(a[1]) == set(b[1]):
            storage = 'order'
        else:
            storage = 'blades'
        return True, storage
    return False, False


def _mvdict(o):
    keys, vals = o[1], o[2]
    if isinstance(vals, np.ndarray):
        vals = list(vals)
    if len(keys) != len(vals):
        return None
    d = {}
    for k, v in zip(keys, vals):
        if k in d:      # duplicated key: ill-formed element
            return None
        d[k] = v
    return d


def show_outcome(o):
    if o[0] == 'exc':
        return f'raises {o[1]}'
    if o[0] == 'val':
        return f'value {show(o[1])}'
    if o[0] == 'seq':
        return o[1] + '[' + '; '.join(show_outcome(x) for x in o[2]) + ']'
    if o[0] == 'mv':
        vals = list(o[2]) if isinstance(o[2], np.ndarray) else o[2]
        return '{' + ', '.join(f'{k}: {show(v)}' for k, v in zip(o[1], vals)) + '}'
    return repr(o)
