"""Deterministic simulation with fault injection for tBuLi/kingdon (see /verif/DESIGN.md)."""
