"""Property module for C20 (plugs into sim.batch)."""
import copy
import json
import os
import random
import time

from .batch import VERIF, run_seed_of
from .proc import fork_call

ASSUMPTIONS = [
    'the front end is a Python transliteration of kingdon/graph.js (decode/toElement, encode, graph_func, '
    'change:subjects handler); ganja.js itself is fetched from the network by graph.js and is not in the repository',
    'assumed about ganja: canvas.value is the array last returned by graph_func; a drag mutates the element at the '
    'reported index in place and re-renders; elements are Float32Array in canonical blade order',
    'transport: one FIFO channel per direction (Jupyter comm semantics) with seeded latency; binary values travel as '
    'separate buffers and are read as Float64Array, everything else takes a JSON round trip',
    'scenes whose drag semantics depend on ganja behaviour that cannot be read off graph.js (an array-valued '
    'multivector expanded at the top level ahead of a draggable point) are generated without drags',
    'dependent callables are evaluated with kingdon operators on multivectors rebuilt from the reference model '
    '(the operators themselves are not under test here)',
]
RUN_TIMEOUT = 120


def worker_init(tier):
    import kingdon
    import ipywidgets
    import anywidget


def directed_files():
    import glob
    return sorted(glob.glob(os.path.join(VERIF, 'findings', 'C20-*.json')))


def n_directed():
    return len(directed_files())


def make_trace(seed, index, tier):
    from .gen20 import gen_trace20
    if index < 0:
        with open(directed_files()[-index - 1]) as f:
            tr = json.load(f)
        tr.pop('violation', None)
    else:
        tr = gen_trace20(random.Random(run_seed_of(seed, index)), tier)
    tr['seed'] = seed
    tr['run'] = index
    return tr


def _run(trace):
    from .c20 import World20
    import warnings
    warnings.simplefilter('ignore')
    return World20(copy.deepcopy(trace)).run().result()


def execute(trace):
    return fork_call(lambda: _run(trace), RUN_TIMEOUT, watchdog=RUN_TIMEOUT - 20)


def shape_of(tr):
    w = tr['world']

    def depth(n, d=0, c=0):
        if n['t'] in ('list', 'tuple'):
            return max([depth(x, d + 1, c) for x in n['of']] or [(d + 1, c)])
        if n['t'] == 'call':
            return depth(n['of'], d, c + 1)
        return (d, c)
    dd = [depth(n) for n in w['scene']] or [(0, 0)]
    return dict(layouts=sorted({m['layout'] for m in w['mvs']}),
                conts=sorted({m['cont'] + ('/' + m.get('dtype', '') if m['cont'] == 'nd' else '') for m in w['mvs']}),
                array=any(m.get('shape') for m in w['mvs']),
                depth=max(x[0] for x in dd), calldepth=max(x[1] for x in dd),
                animate=bool(w['options'].get('animate')), camera='camera' in w['options'],
                single=bool(w.get('single_callable')))


def run_one(seed, index, tier):
    tr = make_trace(seed, index, tier)
    status, res = execute(tr)
    if status != 'ok':
        return dict(harness_error=f'run child {status}: {res}')
    st = res['stats']
    s = dict(digest=res['digest'], stats=st, sim_seconds=res['sim_seconds'], shape=shape_of(tr),
             nontrivial=st['reports_delivered'] > 0, violations=res['violations'],
             dims=tr['world']['algebra'])
    if res['violations']:
        s['trace'] = copy.deepcopy(tr)
        res['violations'][0]['signature'] = finding_signature(tr, res['violations'][0])
    if 0 <= index < 3:
        s['sample'] = dict(world=tr['world'], delivered_events=res['delivered'][:20], stats=st)
    return s


def aggregate(summaries, tier):
    tot = {}
    digests = set()
    sim_s = 0.0
    matrix = {}
    samples = []
    dims = {}
    for s in summaries:
        for k, v in s['stats'].items():
            tot[k] = tot.get(k, 0) + v
        if s['nontrivial']:
            digests.add(s['digest'])
        sim_s += s['sim_seconds']
        sh = s['shape']
        for lay in sh['layouts']:
            for c in sh['conts']:
                key = f"{lay}|{c}|depth{sh['depth']}|call{sh['calldepth']}"
                matrix[key] = matrix.get(key, 0) + 1
        a = s['dims']
        dk = f"{a['p']},{a['q']},{a['r']}"
        dims[dk] = dims.get(dk, 0) + 1
        if 'sample' in s:
            samples.append(s['sample'])
    return dict(
        evaluations=len(summaries),
        distinct_nontrivial=len(digests),
        rule='one evaluation = one simulated world: a default-basis algebra with d<=4, 2-6 multivectors (sparse, permuted, '
             'dense canonical, dense binary, list/ndarray-backed, array-valued), a nested scene over ints, strings, '
             'multivectors, lists, tuples, callables and dependent callables, options (animate, camera), a drag script and '
             'seeded channel latencies/duplicates; non-trivial = at least one drag report was delivered to the kernel; '
             'distinct = distinct digest of the delivered-event order and the final reference-model state',
        samples=samples[:3],
        sim_seconds=round(sim_s, 2),
        messages=dict(kernel_to_frontend=tot.get('k2f', 0), reports_to_kernel=tot.get('f2k_report', 0),
                      animation_ticks_to_kernel=tot.get('f2k_tick', 0)),
        drags=tot.get('drags', 0), drags_applied=tot.get('drags_applied', 0), frames=tot.get('frames', 0),
        faults_fired=dict(duplicate_report=tot.get('dup', 0), stale_report=tot.get('stale_reports', 0),
                          short_report=tot.get('short_reports', 0),
                          delay='every message (seeded latency, cross-direction reordering follows from it)'),
        kernel_events_checked=tot.get('checks', 0),
        scene_shape_matrix=dict(cells_covered=len(matrix), cells=matrix),
        algebras=dims,
        components=dict(real=['kingdon.graph.GraphWidget, encode/walker, Algebra.graph (from /repo working tree)',
                              'traitlets / ipywidgets / anywidget message handling (set_state, echo, send_state, buffers)'],
                        stub=['front end: transliteration of graph.js; ganja.js absent', 'user dragging points',
                              'Jupyter transport: two FIFO channels with seeded latency on a discrete-event clock']),
    )


def post_check(cov):
    if cov.get('evaluations', 0) > 50 and cov.get('messages', {}).get('reports_to_kernel', 0) == 0:
        return 'no drag report was ever delivered: the front-end stub or the drag script is blind'
    return None


def vclass(v):
    return (v['clause'],)


def fails(trace, want=None):
    status, res = execute(trace)
    if status != 'ok':
        return None, {}
    for v in res['violations']:
        if want is None or vclass(v) == tuple(want):
            return v, res
    return None, res


def minimise20(trace, want, budget_s=120, log=print):
    t_end = time.time() + budget_s
    v, res = fails(trace, want)
    if v is None:
        return trace, None, res
    cur = copy.deepcopy(trace)
    tries = 0

    def attempt(cand):
        nonlocal cur, v, res, tries
        if time.time() > t_end:
            return False
        tries += 1
        v2, res2 = fails(cand, want)
        if v2 is not None:
            cur, v, res = cand, v2, res2
            return True
        return False
    w = lambda t: t['world']
    # drop drags
    i = len(w(cur)['drags']) - 1
    while i >= 0:
        c = copy.deepcopy(cur)
        del w(c)['drags'][i]
        attempt(c)
        i -= 1
    # faults off
    for key, val in (('p_dup', 0), ('float32', False), ('single_callable', False), ('rerender_on_change', False)):
        if w(cur).get(key):
            c = copy.deepcopy(cur)
            w(c)[key] = val
            attempt(c)
    if w(cur)['latency'].get('jitter'):
        c = copy.deepcopy(cur)
        w(c)['latency'] = dict(base=0.001, jitter=0.0, p_slow=0)
        attempt(c)
    for key in list(w(cur)['options']):
        c = copy.deepcopy(cur)
        del w(c)['options'][key]
        attempt(c)
    # drop top-level scene nodes (drag slots are positions among draggable nodes: only drop when no drags remain
    # or when the node is not a top-level multivector)
    i = len(w(cur)['scene']) - 1
    while i >= 0:
        n = w(cur)['scene'][i]
        if n['t'] != 'mv' or not w(cur)['drags']:
            c = copy.deepcopy(cur)
            del w(c)['scene'][i]
            attempt(c)
        i -= 1
    # flatten nested nodes
    changed = True
    while changed and time.time() < t_end:
        changed = False
        for i, n in enumerate(w(cur)['scene']):
            if n['t'] in ('list', 'tuple') and n['of']:
                for sub in n['of']:
                    if n['t'] == 'mv':
                        continue
                    c = copy.deepcopy(cur)
                    w(c)['scene'][i] = {'t': n['t'], 'of': [sub]}
                    if len(n['of']) > 1 and attempt(c):
                        changed = True
                        break
            if changed:
                break
    # simplify values
    for i, m in enumerate(w(cur)['mvs']):
        if not m.get('shape'):
            c = copy.deepcopy(cur)
            w(c)['mvs'][i]['vals'] = [(j + 1) if m.get('dtype') == 'int64' or m['cont'] == 'list' else float(j + 1)
                                      for j in range(len(m['vals']))]
            attempt(c)
    log(f'minimiser executed {tries} candidate worlds')
    return cur, v, res


def report_violation(summary, seed, index, known, log=print):
    trace = summary['trace']
    want = vclass(summary['violations'][0])
    small, v, res = minimise20(trace, want, log=log)
    if v is None:
        return 'unreproducible', None, 'explicit trace did not reproduce'
    ok = 0
    for _ in range(2):
        v2, res2 = fails(small, want)
        if v2 is not None and res2['digest'] == res['digest']:
            ok += 1
    if ok < 2:
        return 'unreproducible', None, f'replayed {ok}/2 times'
    small['violation'] = v
    small['digest'] = res['digest']
    small['delivered'] = res.get('delivered')
    os.makedirs(os.path.join(VERIF, 'replays'), exist_ok=True)
    path = os.path.join(VERIF, 'replays', f'C20-{seed}-{index}.json')
    with open(path, 'w') as f:
        json.dump(small, f, indent=1, default=str)
    sig = finding_signature(small, v)
    for k in known.get('open', []):
        if k.get('property') == 'C20' and k.get('signature') == sig:
            return 'known', path, f"{k.get('what', sig)} (replay {path})"
    return 'violation', path, dict(clause=v['clause'], expected=v.get('expected'), got=v.get('got'),
                                   signature=sig, replay=path)


def write_replay(summary, seed, index, tag='known'):
    tr = copy.deepcopy(summary['trace'])
    tr['violation'] = summary['violations'][0]
    os.makedirs(os.path.join(VERIF, 'replays'), exist_ok=True)
    path = os.path.join(VERIF, 'replays', f'C20-{tag}-{seed}-{index}.json')
    with open(path, 'w') as f:
        json.dump(tr, f, indent=1, default=str)
    return path


def finding_signature(trace, v):
    if trace['world'].get('allow_misaligned') and (v['clause'].startswith('W3') or v['clause'] == 'W2-draggable-index'):
        return 'W3:array-valued-multivector-at-top-level'
    return v['clause']


def replay_file(path, log=print):
    with open(path) as f:
        tr = json.load(f)
    want = vclass(tr['violation']) if tr.get('violation') else None
    v, res = fails(tr, want)
    return v, res, tr
