"""Determinism proof for the simulator (DESIGN.md 2.8): the same seeds are executed in separate fresh
interpreters at worker counts 1 and 16 under PYTHONHASHSEED=0 -- the event-log digests must match
pairwise -- and once more under another hash seed, where the verdicts must match.

    python -m sim.selftest C09 [--n 24] [--seed S]
exit 0: deterministic; exit 2: divergence (printed).
"""
import argparse
import json
import os
import subprocess
import sys
import tempfile

HERE = os.path.dirname(os.path.dirname(os.path.abspath(__file__)))


def run(prop, n, seed, workers, hashseed, tier):
    fd, path = tempfile.mkstemp(suffix='.json')
    os.close(fd)
    env = dict(os.environ, PYTHONHASHSEED=str(hashseed), VERIF_HASHSEED=str(hashseed), PYTHONDONTWRITEBYTECODE='1')
    cmd = [sys.executable, '-m', 'sim.main', prop, '--tier', tier, '--seed', str(seed), '--runs', str(n),
           '--budget', '3600', '--workers', str(workers), '--no-evidence', '--dump-digests', path]
    p = subprocess.run(cmd, cwd=HERE, env=env, stdout=subprocess.PIPE, stderr=subprocess.STDOUT, text=True)
    try:
        with open(path) as f:
            d = json.load(f)
    finally:
        os.unlink(path)
    return p.returncode, d, p.stdout


def main():
    ap = argparse.ArgumentParser()
    ap.add_argument('prop')
    ap.add_argument('--n', type=int, default=24)
    ap.add_argument('--seed', type=int, default=777)
    ap.add_argument('--tier', default='quick')
    a = ap.parse_args()
    rc1, d1, out1 = run(a.prop, a.n, a.seed, 1, 0, a.tier)
    rc16, d16, out16 = run(a.prop, a.n, a.seed, 16, 0, a.tier)
    rch, dh, outh = run(a.prop, a.n, a.seed, 8, 1, a.tier)
    common = sorted(set(d1) & set(d16) & set(dh), key=int)
    # a pair whose traces were edited differently by the oracle's wall-clock net (timeouts under load) is
    # not comparable; everything else must match exactly
    def comparable(a, b):
        return a[2] == b[2] or not (a[3] or b[3])
    incomparable = [i for i in common if not comparable(d1[i], d16[i]) or not comparable(d1[i], dh[i])]
    bad = [i for i in common if comparable(d1[i], d16[i]) and d1[i][:2] != d16[i][:2]]
    badv = [i for i in common if comparable(d1[i], dh[i]) and d1[i][1] != dh[i][1]]
    hashdiff = [i for i in common if comparable(d1[i], dh[i]) and d1[i][0] != dh[i][0]]
    print(json.dumps(dict(property=a.prop, seeds=len(common), exit_codes=[rc1, rc16, rch],
                          digest_mismatch_workers_1_vs_16=bad, incomparable_because_of_oracle_timeouts=incomparable, verdict_mismatch_other_hashseed=badv,
                          digest_differs_under_other_hashseed=len(hashdiff))))
    if bad or badv or len(common) < a.n or any(rc not in (0, 1) for rc in (rc1, rc16, rch)):
        print(out1[-800:], out16[-800:], outh[-800:])
        return 2
    return 0


if __name__ == '__main__':
    sys.exit(main())
