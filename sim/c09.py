"""C09: results depend only on the operands, never on earlier operations.

`run_trace` executes one fully explicit run description (world, caller programs, fault plan,
scheduler policy or recorded schedule) against the real kingdon code under the deterministic
scheduler and checks invariants I1-I4 of DESIGN.md section 3 against outcomes that the oracle
computed beforehand on freshly created algebras in pristine processes.
"""
import random
import warnings

from . import ops
from .codec import outcome_equal, show_outcome
from .engine import Sim, SimAbort, SimDeadlock, InjectedInterrupt, InjectedMemoryError


class InjectedWrapperFailure(RuntimeError):
    pass


INJECTED = {'InjectedInterrupt', 'InjectedMemoryError', 'InjectedWrapperFailure'}


class _Opaque:
    __slots__ = ('_f',)

    def __init__(self, f):
        self._f = f

    def __call__(self, *args):
        return self._f(*args)


class StubWrapper:
    """The simulator's JIT decorator: semantics preserving, returns a *new* callable, counts
    applications and calls, is a pre-emption point and a fault point."""

    def __init__(self, run, ai, faults):
        self.run = run
        self.ai = ai
        self.applied = 0
        self.calls = 0
        self.faults = [f for f in faults if f['alg'] == ai]
        self.armed = True
        # 'ident': a decorator that returns the very function it was given (a tagging/logging decorator, or
        # `njit if USE_NUMBA else (lambda f: f)`); 'stub': returns a new callable
        self.kind = run.trace['world']['algebras'][ai].get('wrapper', 'stub')

    def __call__(self, func):
        self.applied += 1
        sim = self.run.sim
        if sim is not None:
            sim.yield_point('wrap-apply')
        self._maybe_fail('apply', self.applied)
        if self.kind == 'ident':
            return func
        outer = self

        def wrapped(*args):
            outer.calls += 1
            s = outer.run.sim
            if s is not None:
                s.yield_point('wrap-call')
            outer._maybe_fail('call', outer.calls)
            return func(*args)
        if self.kind == 'opaque':
            # a decorator written without functools.wraps: no __wrapped__, no __name__ (class-based profilers,
            # functools.partial, ...)
            return _Opaque(wrapped)
        wrapped.__name__ = getattr(func, '__name__', 'wrapped')
        wrapped.__wrapped__ = func
        return wrapped

    def _maybe_fail(self, when, n):
        if not self.armed:
            return
        for f in self.faults:
            if f['when'] == when and f['at'] == n and not f.get('fired'):
                sim = self.run.sim
                t = sim.current_thread() if sim is not None else None
                if t is None:
                    return            # never during set-up or the warm re-execution
                f['fired'] = True
                self.run.wrapper_faulted.add((t.tid, t.op))
                sim.faults_fired.append((t.tid, t.op, 'wrapper_' + when, t.op_steps, 'StubWrapper'))
                raise InjectedWrapperFailure(f'injected wrapper failure at {when} #{n}')


class Run:
    def __init__(self, trace, expected):
        self.trace = trace
        self.expected = expected
        self.sim = None
        self.world = None
        self.violations = []
        self.records = {}
        self.wrapper_faulted = set()
        self._referenced = {(c, a['i']) for c, prog in enumerate(trace['callers']) for op in prog
                            for a in op.get('args', []) if a.get('k') == 'prev'}
        self.tracked = []            # (label, reference to the mv object, snapshot)
        self._current = []
        self.storage_only = 0
        self.ops_done = 0
        self.setup_error = None
        self.probes = {}
        self._pat_first = {}         # (alg, operator, frozenset(keys)...) -> (ordered keys, thread)
        self._order = []             # algebra index of each completed operation, in completion order
        self._numspace_ids = {}
        self._parked_in = {}
        self.cache_states = set()

    def probe(self, name, n=1):
        self.probes[name] = self.probes.get(name, 0) + n

    def _op_probes(self, t, c, i, op, argkeys):
        """Reach probes (evidence only; never part of a verdict)."""
        ai = op['alg']
        spec = self.trace['world']['algebras']
        if len(self._order) >= 2 and self._order[-1] != ai and ai in self._order[:-1]:
            from .gen import dim_of
            if dim_of(spec[ai]) == dim_of(spec[self._order[-1]]):
                self.probe('other_algebra_of_same_dimension_between_two_operations')
        self._order.append(ai)
        if op['kind'] in ('bin', 'un', 'reg') and argkeys and all(k is not None for k in argkeys):
            name = op.get('op') or op.get('fn')
            setkey = (ai, op['kind'], name, tuple(frozenset(k) for k in argkeys))
            first = self._pat_first.get(setkey)
            if first is None:
                self._pat_first[setkey] = (argkeys, t.tid)
            else:
                if first[0] != argkeys:
                    self.probe('key_set_revisited_in_another_order')
                elif first[1] != t.tid:
                    self.probe('pattern_first_used_by_another_thread')
                else:
                    self.probe('pattern_revisited_by_same_thread')
        alg = self.world.algebras[ai]
        ns = getattr(alg, 'numspace', None)
        if isinstance(ns, dict):
            prev = self._numspace_ids.setdefault(ai, {})
            for k, v in list(ns.items()):
                if k in prev and prev[k] != id(v):
                    self.probe('numspace_name_rebound')
                prev[k] = id(v)
        try:
            sig = []
            for aj, a in enumerate(self.world.algebras):
                if a is None:
                    continue
                for rn, od in list(a.registry.items()):
                    for kk in list(od):
                        sig.append((aj, getattr(od, 'name', '?'), kk))
            self.cache_states.add(hash(frozenset(sig)))
        except Exception:
            pass

    def _switch_probe(self, t, nxt, code):
        import sys as _sys
        try:
            f = _sys._getframe(3)
            depth = 0
            info = None
            while f is not None and depth < 60:
                co = f.f_code
                if co.co_name == '__getitem__' and co.co_filename.endswith('operator_dict.py'):
                    info = (id(f.f_locals.get('self')), f.f_locals.get('keys_in'))
                    break
                f = f.f_back
                depth += 1
            self._parked_in[t.tid] = info
            other = self._parked_in.get(nxt.tid)
            if info is not None and other is not None:
                self.probe('two_threads_inside_generation')
                if info == other:
                    self.probe('two_threads_generating_same_operator_and_pattern')
        except Exception:
            pass

    # -------------------------------------------------------------------------------
    def track(self, label, obj, hold=True):
        """Remember a multivector and its coefficients.  With hold=False the harness keeps only a weak
        reference after the end of the current operation, the way user code drops temporaries."""
        import weakref
        t = self.sim.current_thread() if self.sim is not None else None
        if t is not None:
            t.atomic += 1           # the harness reads coefficients through the public accessors
        try:
            self._track(label, obj, hold, weakref)
        finally:
            if t is not None:
                t.atomic -= 1

    def _track(self, label, obj, hold, weakref):
        for mv in ops.collect_mvs(obj, []):
            if hold or self.trace['world'].get('hold_refs', True):
                self.tracked.append((label, (lambda m: (lambda: m))(mv), ops.snapshot(mv)))
            else:
                cur = getattr(self.world._tls, 'current', None)
                if cur is None:
                    cur = self.world._tls.current = []
                cur.append(mv)                           # strong until this thread's end-of-operation check
                self.tracked.append((label, weakref.ref(mv), ops.snapshot(mv)))

    def check_tracked(self, where):
        t = self.sim.current_thread() if self.sim is not None else None
        if t is not None:
            t.atomic += 1
        try:
            self._check_tracked(where)
        finally:
            if t is not None:
                t.atomic -= 1

    def _check_tracked(self, where):
        alive = []
        bad = None
        for label, ref, snap in self.tracked:
            mv = ref()
            if mv is None:
                continue                                  # the temporary is gone: nothing left to change
            alive.append((label, ref, snap))
            if bad is not None:
                continue
            try:
                now = ops.snapshot(mv)
            except Exception as e:
                now = ('unreadable', type(e).__name__)
            if now != snap:
                bad = mv
                self.violations.append(dict(clause='I2', where=where, what=label,
                                            expected=repr(snap)[:300], got=repr(now)[:300]))
        # report each mutated object once
        self.tracked = [(l, r, s) for (l, r, s) in alive if bad is None or r() is not bad]
        self.world._tls.current = []

    def exec_op(self, op, label, keep=None):
        """Build operands, snapshot them, apply the operation.  Returns (outcome, exception)."""
        world = self.world

        def go():
            if op['kind'] == 'register':
                world.register(op['alg'], op['fn'])
                return None
            args = ops.build_operands(world, op['alg'], op.get('args', []))
            self._argkeys = [tuple(a.keys()) if hasattr(a, 'keys') and hasattr(a, 'values') else None for a in args]
            self.track(f'operand of {label}', args, hold=False)
            res = ops.apply_op(world, op, args)
            self.track(f'result of {label}', res, hold=False)      # returned multivectors must never change afterwards
            if keep is not None and keep in self._referenced and type(res).__name__ == 'MultiVector':
                world.prev_results[keep] = res          # a later operation of this caller uses it as an operand
            return res
        out, exc = ops.outcome_of(go)
        return out, exc

    def _numpy_involved(self, op):
        spec = self.trace['world']

        def has(r):
            if isinstance(r, dict):
                if 'nd' in r or r.get('cont') == 'nd' or 'np' in r:
                    return True
                if r.get('k') == 'sh':
                    return has(spec['shared'][r['i']]['recipe'])
                return any(has(v) for v in r.values())
            if isinstance(r, list):
                return any(has(v) for v in r)
            return False
        return has(op.get('args', [])) or has(op.get('call', {}))

    def judge(self, c, i, op, out, faulted, phase):
        exp = self.expected.get((c, i))
        if exp is None:
            return
        if out[0] == 'exc' and out[1] == 'SimDeadlock':
            self.violations.append(dict(clause='I4', caller=c, op=i, phase=phase, desc=op,
                                        expected=show_outcome(exp), got='deadlock: call never returns'))
            return
        if faulted and self._numpy_involved(op):
            # numpy calls back into kingdon from C (ndarray.__mul__ -> MultiVector.__rmul__, element by element) and
            # may swallow or transform an exception raised there; C frames are invisible to the placement rule,
            # so the outcome of a fault-carrying call with ndarray operands is not judged (all other calls are)
            return
        if faulted and out[0] == 'exc' and out[1] != 'SimDeadlock':
            # the call that was hit by an injected fault may fail, with the injected exception or with whatever
            # the code turns it into; what it may not do is return a wrong value, and it may not disturb others
            return
        eq, storage = outcome_equal(out, exp)
        if eq and storage != 'blades':
            if storage:
                self.storage_only += 1        # same blades, other order: counted, not a violation
            return
        if eq:
            # the coefficients agree on every blade but the returned multivector stores other blades than the one a
            # fresh algebra returns (coefficients that vanish identically kept, or dropped): the returned
            # object differs, and so do keys(), grades and the printed form - a clause of its own
            self.violations.append(dict(clause='I1-stored-blades' if phase == 'run' else 'I3-stored-blades',
                                        caller=c, op=i, phase=phase, desc=op, faulted=faulted,
                                        expected=show_outcome(exp), got=show_outcome(out)))
            return
        clause = 'I1' if phase == 'run' else 'I3'
        if out[0] == 'exc' and exp[0] != 'exc':
            clause += '-unexpected-exception'
        self.violations.append(dict(clause=clause, caller=c, op=i, phase=phase, desc=op, faulted=faulted,
                                    expected=show_outcome(exp), got=show_outcome(out)))

    # -------------------------------------------------------------------------------
    def caller_body(self, c, prog, faults_by_op):
        def body(t):
            sim = self.sim
            for i, op in enumerate(prog):
                self.world._tls.caller = c
                sim.begin_op(t, i, faults_by_op.get(i))
                self._argkeys = None
                out, exc = self.exec_op(op, f'caller {c} op {i}', keep=(c, i))
                argkeys = self._argkeys
                f = sim.end_op(t)
                if isinstance(exc, SimAbort):
                    raise exc
                faulted = bool(f and f['fired']) or ((t.tid, i) in self.wrapper_faulted)
                if exc is None and op['kind'] != 'register':
                    pass
                self.records[(c, i)] = (out, faulted)
                sim.h.update(repr((c, i, show_outcome(out))).encode())
                self.judge(c, i, op, out, faulted, 'run')
                if out[0] != 'exc':
                    # returned multivectors must never change afterwards
                    pass
                self.check_tracked(f'after caller {c} op {i}')
                self.ops_done += 1
                try:
                    self._op_probes(t, c, i, op, argkeys)
                except Exception:
                    pass
        return body

    def execute(self, probes=None, keep_events=0):
        tr = self.trace
        w = tr['world']
        warnings.resetwarnings()
        warnings.simplefilter('error' if w.get('warn_as_error') else 'ignore')
        rng = random.Random(tr.get('sched_seed', 0))
        sim = Sim(rng, policy=tr.get('policy'), schedule=tr.get('schedule'), instr=bool(w.get('instr')),
                  max_steps=tr.get('max_steps', 4_000_000 if tr.get('tier', 'quick') == 'quick' else 14_000_000), keep_events=keep_events,
                  atomic_files=() if w.get('instr_poly') else ('polynomial.py',))
        self.sim = None                 # wrappers are not pre-emption points during set-up
        wf = [dict(f) for f in w.get('wrapper_faults', [])]
        self.stubs = {}

        def wrapper_factory(ai):
            s = StubWrapper(self, ai, wf)
            self.stubs[ai] = s
            return s
        try:
            self.world = ops.World(w, wrapper_factory=wrapper_factory)
            self.world.register_all()
            for i in range(len(w.get('shared', []))):
                obj = self.world.shared_operand(i)
                self.track(f'shared operand {i}', obj)
        except BaseException as e:
            self.setup_error = f'{type(e).__name__}: {e}'
            return self
        ncodes = sim.install()
        self.ncodes = ncodes
        sim.on_switch = self._switch_probe
        try:
            self.sim = sim
            for c, prog in enumerate(tr['callers']):
                fb = {f['op']: f for f in tr.get('faults', []) if f['caller'] == c}
                sim.spawn(self.caller_body(c, prog, fb))
            sim.run()
        finally:
            self.sim = None
            sim.uninstall()
        self.simres = sim
        if sim.abort is not None:
            return self
        if sim.deadlock and not any(v['clause'] == 'I4' for v in self.violations):
            self.violations.append(dict(clause='I4', got='deadlock: all callers blocked', expected='progress'))
        # I3: the whole set of operations once more, sequentially, on the now-warm algebras
        if not self.violations:
            for s in self.stubs.values():
                s.armed = False
            for c, prog in enumerate(tr['callers']):
                self.world._tls.caller = c
                for i, op in enumerate(prog):
                    out, exc = self.exec_op(op, f'warm caller {c} op {i}')
                    self.judge(c, i, op, out, False, 'warm')
                    if self.violations:
                        break
                if self.violations:
                    break
            if not self.violations:
                self.check_tracked('after warm re-execution')
        return self

    def result(self):
        sim = getattr(self, 'simres', None)
        res = dict(
            violations=self.violations,
            setup_error=self.setup_error,
            ops_done=self.ops_done,
            storage_only=self.storage_only,
            probes=dict(self.probes),
            cache_states=sorted(self.cache_states),
        )
        if sim is not None:
            res.update(
                abort=sim.abort, steps=sim.nsteps, switches=sim.nswitch, digest=sim.digest(),
                switch_digest=sim.switch_digest(), faults_fired=list(sim.faults_fired),
                fault_skipped_dirty=sim.fault_skipped_dirty, misaligned=sim.misaligned,
                segments=sim.segments, ncodes=self.ncodes, deadlock=sim.deadlock,
                outcomes={f'{c}.{i}': show_outcome(o) for (c, i), (o, _) in sorted(self.records.items())},
                wrapper_applied={ai: s.applied for ai, s in self.stubs.items()},
                wrapper_calls={ai: s.calls for ai, s in self.stubs.items()},
            )
        return res


LIMITS = {'quick': (150_000, 400_000), 'thorough': (1_500_000, 3_000_000)}
TIME_LIMIT = {'quick': 4.0, 'thorough': 20.0}     # wall-clock net for sympy-heavy calls (lines do not see them)


def compute_expected(trace, oracle, tier=None):
    """Ask the oracle for the outcome of every operation.  Operations (and shared operands) the
    oracle cannot answer within its limits, or that would make the run too expensive (cost = number
    of kingdon lines the call executes on the fresh algebra, a deterministic measure), are replaced
    by trivial ones *before* execution; the trace that is executed, recorded and replayed is the
    trace after replacement."""
    spec = trace['world']
    tier = tier or trace.get('tier', 'quick')
    per_op, per_run = LIMITS[tier]
    tl = TIME_LIMIT[tier]
    if trace.get('explicit'):
        per_op, per_run, tl = None, None, 120.0          # replay of a recorded trace: never edit it
    dropped = 0
    bad = ('timeout', 'harness-error', 'too-expensive')
    for i, s in enumerate(spec.get('shared', [])):
        probe = {'alg': s['alg'], 'kind': 'id', 'args': [s['recipe']]}
        out = oracle.expected(spec, probe, limit=per_op, timeout=tl)
        if out[0] in bad or out[0] == 'exc':
            s['recipe'] = {'k': 'kv', 'keys': [0], 'vals': [1]}
            dropped += 1
    expected = {}
    costs = {}
    trivial = lambda ai: {'alg': ai, 'kind': 'un', 'op': 'neg', 'form': 'method',
                          'args': [{'k': 'kv', 'keys': [0], 'vals': [1]}]}

    def replace(c, i):
        import copy as _copy
        prog = trace['callers'][c]
        op2 = trivial(prog[i]['alg'])
        prog[i] = op2
        expected[(c, i)] = oracle.expected(spec, op2, limit=per_op, timeout=tl)
        costs[(c, i)] = 0
        trace['faults'] = [f for f in trace.get('faults', []) if not (f['caller'] == c and f['op'] == i)]
        # operations that use the result of the replaced one as an operand now use the replacement's result
        for j in range(i + 1, len(prog)):
            hit = False
            for a in prog[j].get('args', []):
                if a.get('k') == 'prev' and a.get('i') == i:
                    a['op'] = _copy.deepcopy(op2)
                    hit = True
            if hit and (c, j) in expected:
                out = oracle.expected(spec, prog[j], limit=per_op, timeout=tl)
                costs[(c, j)] = oracle.last_cost
                if out[0] in bad:
                    replace(c, j)
                else:
                    expected[(c, j)] = out

    for c, prog in enumerate(trace['callers']):
        for i, op in enumerate(prog):
            if op['kind'] == 'register':
                expected[(c, i)] = ('val', None)
                continue
            if op['kind'] == 'meth' and op.get('op') in ('deepcopy', 'copy', 'pickle'):
                # copying / pickling an operand is an event of the history, not an operator: whether and how it
                # fails depends on what hangs off the algebra (the user's wrapper and simp_func objects), so its own
                # outcome is not compared - only what later operations return
                expected[(c, i)] = None
                costs[(c, i)] = 0
                continue
            out = oracle.expected(spec, op, limit=per_op, timeout=tl)
            costs[(c, i)] = oracle.last_cost
            if out[0] in bad:
                if per_op is None:
                    expected[(c, i)] = None      # explicit trace: leave the operation, do not judge it
                    continue
                replace(c, i)
                dropped += 1
            else:
                expected[(c, i)] = out
    while per_run is not None and sum(costs.values()) > per_run:
        c, i = max(costs, key=lambda k: (costs[k], k))
        replace(c, i)
        dropped += 1
    return expected, dropped


def _no_shared(spec):
    return spec
