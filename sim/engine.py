"""Deterministic scheduler for real threads executing kingdon code.

Pre-emption points are sys.monitoring (PEP 669) LINE events -- and, on a per-run subset of
cache-critical functions, INSTRUCTION events -- enabled *locally* on every code object whose
co_filename lies under the kingdon package directory.  Exactly one simulated thread runs at a time;
at every pre-emption point the running thread asks the scheduler who runs next and, if it is not
itself, hands the baton over (release the other thread's semaphore, block on its own).  Which thread
runs is therefore always the simulator's decision; the decision comes from one PRNG or from a
recorded schedule.  Exceptions raised inside the monitoring callback propagate into the monitored
kingdon frame as if raised by that line: this is the fault-injection seam.
"""
import gc
import hashlib
import os
import struct
import sys
import threading
import types
import sysconfig

mon = sys.monitoring
TOOL = 4
EV = mon.events

HARNESS_DIR = os.path.dirname(os.path.abspath(__file__))
_STDLIB = sysconfig.get_paths()['stdlib']


class SimAbort(BaseException):
    """Raised inside simulated threads to unwind them when a run is abandoned."""


class SimDeadlock(BaseException):
    """Raised in a thread that waits for a simulated lock nobody can ever release."""


class InjectedInterrupt(KeyboardInterrupt):
    pass


class InjectedMemoryError(MemoryError):
    pass


FAULT_EXC = {'interrupt': InjectedInterrupt, 'alloc_fail': InjectedMemoryError}


# ---------------------------------------------------------------------------- code discovery

def kingdon_dir():
    import kingdon
    return os.path.dirname(os.path.abspath(kingdon.__file__))


def _walk_code(code, kdir, out):
    if code in out:
        return
    if code.co_filename.startswith(kdir):
        out.add(code)
    for c in code.co_consts:
        if isinstance(c, types.CodeType):
            _walk_code(c, kdir, out)


_CODES_CACHE = {}


def discover_code(kdir=None):
    """Cached per process (and inherited by forked children): see _discover_code."""
    kdir = kdir or kingdon_dir()
    if kdir not in _CODES_CACHE:
        _CODES_CACHE[kdir] = _discover_code(kdir)
    return list(_CODES_CACHE[kdir])


def _discover_code(kdir=None):
    """Every code object defined in a file of the kingdon package (found dynamically, so edited,
    added or renamed functions are instrumented too).  Selection is by co_filename."""
    kdir = kdir or kingdon_dir()
    out = set()
    for obj in gc.get_objects():
        try:
            if isinstance(obj, types.FunctionType):
                _walk_code(obj.__code__, kdir, out)
        except ReferenceError:
            pass
    # module / class level objects that are not plain functions
    for name, mod in list(sys.modules.items()):
        f = getattr(mod, '__file__', None)
        if not f or not os.path.abspath(f).startswith(kdir):
            continue
        for v in list(vars(mod).values()):
            _from_obj(v, kdir, out, 0)
    codes = sorted(out, key=lambda c: (c.co_filename, c.co_firstlineno, c.co_qualname))
    return codes


def _from_obj(v, kdir, out, depth):
    if depth > 3:
        return
    for attr in ('__code__',):
        c = getattr(v, attr, None)
        if isinstance(c, types.CodeType):
            _walk_code(c, kdir, out)
    for attr in ('func', 'fget', 'fset', '__func__', '__wrapped__'):
        try:
            f = getattr(v, attr, None)
        except Exception:
            f = None
        if f is not None and f is not v:
            _from_obj(f, kdir, out, depth + 1)
    if isinstance(v, type):
        for w in list(vars(v).values()):
            _from_obj(w, kdir, out, depth + 1)


_ACCESS_OPS = {'STORE_SUBSCR', 'DELETE_SUBSCR', 'BINARY_SUBSCR', 'CONTAINS_OP', 'STORE_ATTR', 'STORE_GLOBAL', 'DELETE_ATTR'}
_ACCESS_METHODS = {'setdefault', 'pop', 'update', 'get', 'append', 'clear', 'popitem', 'insert', 'remove', 'extend'}


def access_lines(codes):
    """(code, line) pairs of cache-critical functions whose line reads or writes a container element or an
    attribute: the places where stopping a thread *before* the line separates a check from its act."""
    import dis
    out = set()
    for c in codes:
        for ins in dis.get_instructions(c):
            line = ins.positions.lineno if ins.positions else None
            if line is None:
                continue
            if ins.opname in _ACCESS_OPS:
                out.add((c, line))
            elif ins.opname in ('LOAD_ATTR', 'LOAD_METHOD') and ins.argval in _ACCESS_METHODS:
                out.add((c, line))
    return out


def fault_targets(codes):
    """[qualname, line] pairs where an interrupt separates two steps of an update of shared state: the access
    lines of the critical functions and the line that follows each of them (an exception raised at the LINE
    event of line L means L itself did not run)."""
    crit = critical_codes(codes)
    acc = access_lines(crit)
    out = set()
    for c in crit:
        lines = sorted({l for (_, _, l) in c.co_lines() if l})
        mine = {l for (cc, l) in acc if cc is c}
        for i, l in enumerate(lines):
            if l in mine:
                out.add((c.co_qualname, l))
                if i + 1 < len(lines):
                    out.add((c.co_qualname, lines[i + 1]))
    return sorted(out)


def critical_codes(codes):
    """Cache-critical functions: everything in operator_dict.py plus the lazily filled tables, the
    cached properties and `register`.  Chosen by file / qualname at run time."""
    crit = []
    for c in codes:
        base = os.path.basename(c.co_filename)
        q = c.co_qualname
        if base == 'operator_dict.py':
            crit.append(c)
        elif base == 'algebra.py' and (q.startswith('BladeDict.') or q.startswith('DefaultKeyDict.')
                                       or q.startswith('Algebra.register')):
            crit.append(c)
        elif base == 'codegen.py' and q in ('do_codegen', 'do_compile', '_lambdify_mv', 'lambdify', 'func_builder'):
            crit.append(c)
        elif q.endswith(('.type_number', '._callable', '.issymbolic', '.free_symbols', '.grades')):
            crit.append(c)
    return crit


# ---------------------------------------------------------------------------- simulated locks

_real_Lock = threading.Lock
_real_RLock = threading.RLock
_ACTIVE = None          # the Sim that is currently running, if any


def _called_from_kingdon():
    f = sys._getframe(2)
    fn = f.f_code.co_filename if f else ''
    if any(fn.startswith(kd) for kd in _KDIR):
        return True
    if fn == '<string>' and f is not None:
        # dataclass-generated __init__ (a lock as a field default_factory of a kingdon dataclass)
        owner = f.f_locals.get('self')
        mod = getattr(type(owner), '__module__', '') or ''
        if mod == 'kingdon' or mod.startswith('kingdon.'):
            return True
    return False


_KDIR = []


class SimLock:
    """Lock created by kingdon code.  Contention is resolved by the simulator: a thread that
    finds the lock taken is not schedulable until it is released; all threads blocked = deadlock."""

    def __init__(self, reentrant=False):
        self.reentrant = reentrant
        self.owner = None
        self.count = 0

    def _me(self):
        sim = _ACTIVE
        if sim is None:
            return 'main'
        return sim.by_ident.get(threading.get_ident(), 'main')

    def acquire(self, blocking=True, timeout=-1):
        me = self._me()
        sim = _ACTIVE
        while True:
            if self.owner is None:
                self.owner, self.count = me, 1
                return True
            if self.reentrant and self.owner is me:
                self.count += 1
                return True
            if not blocking or sim is None or me == 'main':
                if sim is None or me == 'main':
                    if not blocking:
                        return False
                    raise SimDeadlock('non-simulated thread blocks on a simulated lock')
                return False
            ok = sim.block_on(me, self)
            if not ok:
                if timeout is not None and timeout >= 0:
                    return False
                raise SimDeadlock('all threads blocked')

    def release(self):
        if self.owner is None:
            raise RuntimeError('release unlocked lock')
        self.count -= 1
        if self.count == 0:
            self.owner = None
            sim = _ACTIVE
            if sim is not None:
                sim.lock_released(self)

    def locked(self):
        return self.owner is not None

    __enter__ = acquire

    def __exit__(self, *a):
        self.release()

    def _is_owned(self):
        return self.owner is self._me()


def _Lock():
    if _called_from_kingdon():
        return SimLock(False)
    return _real_Lock()


def _RLock(*a, **k):
    if _called_from_kingdon():
        return SimLock(True)
    return _real_RLock(*a, **k)


def install_lock_patch(kdir=None):
    """Must run before kingdon is imported, so that module-level locks are simulated too.
    `kdir` is the directory the kingdon package will be imported from."""
    if kdir is None:
        kdir = os.path.join(os.path.realpath(os.environ.get('VERIF_REPO', '/repo')), 'kingdon')
    _KDIR[:] = [kdir]
    threading.Lock = _Lock
    threading.RLock = _RLock


# ---------------------------------------------------------------------------- scheduler

class SimThread:
    __slots__ = ('tid', 'fn', 'sem', 'state', 'thread', 'op', 'op_steps', 'fault', 'waiting',
                 'prio', 'exc', 'raise_deadlock', 'atomic')

    def __init__(self, tid, fn):
        self.tid = tid
        self.fn = fn
        self.sem = threading.Semaphore(0)
        self.state = 'runnable'
        self.thread = None
        self.op = -1
        self.op_steps = 0
        self.fault = None
        self.waiting = None
        self.prio = 0
        self.exc = None
        self.raise_deadlock = False
        self.atomic = 0              # > 0 while the harness itself calls kingdon accessors: no pre-emption

    def __repr__(self):
        return f'T{self.tid}'


class Sim:
    def __init__(self, rng, policy=None, schedule=None, max_steps=400_000, instr=False, keep_events=0,
                 atomic_files=()):
        self.rng = rng
        self.policy = policy or {'kind': 'walk', 'p': 0.05}
        self.replay = schedule is not None
        self.sched_in = [list(s) for s in schedule] if schedule is not None else None
        self.si = 0
        self.used = 0
        self.threads = []
        self.by_ident = {}
        self.current = None
        self.nsteps = 0
        self.nswitch = 0
        self.max_steps = max_steps
        self.abort = None
        self.deadlock = False
        self.segments = []
        self._closed = True
        self.h = hashlib.blake2b(digest_size=16)
        self.switch_h = hashlib.blake2b(digest_size=16)
        self.done_sem = threading.Semaphore(0)
        self.instr = instr
        self.atomic_files = tuple(atomic_files)
        self.codes = []
        self.code_idx = {}
        self.crit = set()
        self.kdir = None
        self.faults_fired = []
        self.fault_skipped_dirty = 0
        self.keep_events = keep_events
        self.events = []
        self.countdown = 1
        self.pct_points = set()
        self.switch_sites = {}
        self.on_switch = None         # optional probe callback(parked_thread, resumed_thread)
        self.misaligned = 0

    # ---- instrumentation -------------------------------------------------------------
    def install(self):
        self.kdir = kingdon_dir()
        if self.kdir not in _KDIR:
            _KDIR.append(self.kdir)
        self.codes = [c for c in discover_code(self.kdir)
                      if os.path.basename(c.co_filename) not in self.atomic_files]
        self.code_idx = {c: i for i, c in enumerate(self.codes)}
        crit = critical_codes(self.codes)
        self.crit = set(crit)
        self.access = access_lines(crit)
        try:
            mon.use_tool_id(TOOL, 'kingdon-verif-sim')
        except ValueError:
            pass
        mon.register_callback(TOOL, EV.LINE, self._on_line)
        mon.register_callback(TOOL, EV.INSTRUCTION, self._on_instr)
        for c in self.codes:
            ev = EV.LINE
            if self.instr and c in self.crit:
                ev |= EV.INSTRUCTION
            mon.set_local_events(TOOL, c, ev)
        return len(self.codes)

    def uninstall(self):
        for c in self.codes:
            try:
                mon.set_local_events(TOOL, c, 0)
            except Exception:
                pass
        mon.register_callback(TOOL, EV.LINE, None)
        mon.register_callback(TOOL, EV.INSTRUCTION, None)
        try:
            mon.free_tool_id(TOOL)
        except Exception:
            pass

    def _on_line(self, code, line):
        t = self.by_ident.get(threading.get_ident())
        if t is None:
            return
        self.step(t, code, line)

    def _on_instr(self, code, offset):
        t = self.by_ident.get(threading.get_ident())
        if t is None:
            return
        self.step(t, code, -offset - 1)

    # ---- public API ------------------------------------------------------------------
    def spawn(self, fn):
        t = SimThread(len(self.threads), fn)
        self.threads.append(t)
        return t

    def current_thread(self):
        return self.by_ident.get(threading.get_ident())

    def run(self):
        global _ACTIVE
        _ACTIVE = self
        if not self.threads:
            _ACTIVE = None
            return
        self._init_policy()
        for t in self.threads:
            th = threading.Thread(target=self._body, args=(t,), name=f'sim-{t.tid}', daemon=True)
            t.thread = th
            th.start()
        first = self._pick_start()
        self.current = first
        first.sem.release()
        self.done_sem.acquire()
        for t in self.threads:
            t.thread.join(timeout=30)
        _ACTIVE = None

    def yield_point(self, tag):
        """Explicit pre-emption point in harness-owned stubs (wrapper entry / exit)."""
        t = self.current_thread()
        if t is not None:
            self.step(t, None, tag)

    def begin_op(self, t, index, fault=None):
        t.op = index
        t.op_steps = 0
        t.fault = dict(fault, seen=fault.get('anchor') is None, count=0, fired=False, hits=0) if fault else None

    def end_op(self, t):
        f = t.fault
        t.fault = None
        return f

    # ---- thread body -----------------------------------------------------------------
    def _body(self, t):
        self.by_ident[threading.get_ident()] = t
        t.sem.acquire()
        try:
            if self.abort is None:
                t.fn(t)
        except SimAbort:
            pass
        except BaseException as e:          # harness bug inside a caller body
            t.exc = e
            if self.abort is None:
                self.abort = f'harness exception in caller {t.tid}: {type(e).__name__}: {e}'
        finally:
            self._finish(t)

    def _finish(self, t):
        t.state = 'done'
        self.by_ident.pop(threading.get_ident(), None)
        if not self._closed and self.segments and self.segments[-1][0] == t.tid:
            self.segments[-1][2] = 1          # this stretch ended because the thread finished
        self._closed = True
        if self.replay and self.si < len(self.sched_in) and self.sched_in[self.si][0] == t.tid:
            self.si += 1
            self.used = 0
        nxt = self._pick_after_finish(t)
        if nxt is not None:
            self.current = nxt
            nxt.sem.release()
            return
        blocked = [x for x in self.threads if x.state == 'blocked']
        if blocked:
            self.deadlock = True
            x = blocked[0]
            x.state = 'runnable'
            x.raise_deadlock = True
            self.current = x
            x.sem.release()
            return
        self.current = None
        self.done_sem.release()

    # ---- the pre-emption point -------------------------------------------------------
    def step(self, t, code, line):
        if t.atomic:
            return
        if self.abort is not None:
            raise SimAbort()
        self.nsteps += 1
        t.op_steps += 1
        ci = self.code_idx.get(code, 65535) if code is not None else 65534
        self.h.update(struct.pack('<HHi', t.tid, ci, line if isinstance(line, int) else hash_tag(line)))
        if self.keep_events:
            self.events.append((self.nsteps, t.tid, code.co_qualname if code is not None else str(line), line))
            if len(self.events) > self.keep_events:
                del self.events[: self.keep_events // 2]
        if self._closed or not self.segments or self.segments[-1][0] != t.tid:
            self.segments.append([t.tid, 1, 0])
            self._closed = False
        else:
            self.segments[-1][1] += 1
        if self.nsteps > self.max_steps:
            self.abort = f'step cap {self.max_steps} exceeded'
            raise SimAbort()
        f = t.fault
        if f is not None and not f['fired']:
            self._maybe_fault(t, f, code, line)
        nxt = self._choose(t, code, line)
        if nxt is not t:
            self._switch(t, nxt, code, line)

    def _maybe_fault(self, t, f, code, line=None):
        if f.get('line'):
            # targeted fault: the nth time this thread reaches one particular source line during the operation
            if code is None or line != f['line'][1] or code.co_qualname != f['line'][0]:
                return
            f['hits'] += 1
            if f['hits'] < f.get('nth', 1):
                return
            if self._stack_clean(sys._getframe(3)):
                self._fire(t, f, code)
            else:
                self.fault_skipped_dirty += 1
            return
        if not f['seen']:
            if code is not None and code.co_qualname == f['anchor']:
                f['seen'] = True
            else:
                return
        if f['count'] >= f['skip']:
            if code is not None and self._stack_clean(sys._getframe(3)):
                self._fire(t, f, code, depth=4)
            self.fault_skipped_dirty += 1
        f['count'] += 1

    def _fire(self, t, f, code, depth=4):
        f['fired'] = True
        stack = []
        fr = sys._getframe(depth)
        while fr is not None and len(stack) < 40 and not fr.f_code.co_filename.startswith(HARNESS_DIR):
            if fr.f_code.co_filename.startswith(self.kdir):
                stack.append(fr.f_code.co_qualname)
            fr = fr.f_back
        self.faults_fired.append((t.tid, t.op, f['kind'], t.op_steps, tuple(stack)))
        self.h.update(b'F' + f['kind'].encode())
        raise FAULT_EXC[f['kind']](f'injected {f["kind"]}')

    def _stack_clean(self, frame):
        """True when every Python frame between the monitored line and the harness is kingdon,
        generated, harness or standard-library code (DESIGN.md 2.3 placement rule)."""
        kd = self.kdir
        f = frame
        if f.f_code.co_name == '__getattr__':
            b = f.f_back
            if b is None or not (b.f_code.co_filename.startswith(kd) or b.f_code.co_filename.startswith('<')):
                return False
        while f is not None:
            fn = f.f_code.co_filename
            if fn.startswith(HARNESS_DIR):
                return True
            if not (fn.startswith(kd) or fn.startswith('<') or
                    (fn.startswith(_STDLIB) and 'site-packages' not in fn)):
                return False
            f = f.f_back
        return True

    def _switch(self, t, nxt, code, line):
        self.nswitch += 1
        self._closed = True
        site = (code.co_qualname if code is not None else str(line), line if isinstance(line, int) else 0)
        self.switch_h.update(struct.pack('<HHi', t.tid, t.op & 0xffff, hash_tag(site)))
        self.switch_sites[site[0]] = self.switch_sites.get(site[0], 0) + 1
        if self.on_switch is not None:
            try:
                self.on_switch(t, nxt, code)
            except Exception:
                pass
        self.current = nxt
        nxt.sem.release()
        t.sem.acquire()
        if self.abort is not None:
            raise SimAbort()
        if t.raise_deadlock:
            t.raise_deadlock = False
            raise SimDeadlock('all threads blocked')

    # ---- locks -----------------------------------------------------------------------
    def block_on(self, t, lock):
        """Thread t found `lock` taken.  Returns False if nobody else can run (deadlock)."""
        others = [x for x in self.threads if x.state == 'runnable' and x is not t]
        if not others:
            self.deadlock = True
            return False
        t.state = 'blocked'
        t.waiting = lock
        self.h.update(b'B')
        if not self._closed and self.segments and self.segments[-1][0] == t.tid:
            self.segments[-1][2] = 2          # this stretch ended because the thread blocked on a lock
        if self.replay and self.si < len(self.sched_in) and self.sched_in[self.si][0] == t.tid:
            self.si += 1
            self.used = 0
        nxt = self._pick_among(others)
        self._switch(t, nxt, None, 'lock-block')
        return True

    def lock_released(self, lock):
        for x in self.threads:
            if x.state == 'blocked' and x.waiting is lock:
                x.state = 'runnable'
                x.waiting = None

    # ---- policies --------------------------------------------------------------------
    def _runnable(self):
        return [x for x in self.threads if x.state == 'runnable']

    def _init_policy(self):
        p = self.policy
        if p['kind'] == 'pct':
            n = len(self.threads)
            prios = list(range(n))
            self.rng.shuffle(prios)
            for t, pr in zip(self.threads, prios):
                t.prio = pr + 100
            est = p.get('est_steps', 30000)
            self.pct_points = {self.rng.randrange(1, est) for _ in range(p.get('k', 2))}
            self._pct_low = 99
        elif p['kind'] == 'pcta':
            # PCT whose change points are counted on container/attribute access lines of critical functions
            n = len(self.threads)
            prios = list(range(n))
            self.rng.shuffle(prios)
            for t, pr in zip(self.threads, prios):
                t.prio = pr + 100
            est = p.get('est', 80)
            self.pctc_points = {self.rng.randrange(1, est) for _ in range(p.get('k', 1))}
            self.crit_steps = 0
            self._pct_low = 99
        elif p['kind'] == 'pctc':
            # PCT whose priority-change points are counted on line events inside cache-critical functions
            n = len(self.threads)
            prios = list(range(n))
            self.rng.shuffle(prios)
            for t, pr in zip(self.threads, prios):
                t.prio = pr + 100
            est = p.get('est_crit', 200)
            self.pctc_points = {self.rng.randrange(1, est) for _ in range(p.get('k', 1))}
            self.crit_steps = 0
            self._pct_low = 99
        elif p['kind'] == 'rdv':
            # rendezvous: every thread is parked when it first reaches one seeded container-access line of a
            # cache-critical function; when nobody else can run they are released and alternate line by line
            # for a seeded burst (check-then-act windows are a few lines wide: lockstep puts two threads inside
            # the same window), then run sequentially until the next round
            self.rdv_rounds = p.get('rounds', 1)
            self._rdv_arm()
        elif p['kind'] == 'walk':
            self.countdown = self._geom(p['p'])

    def _rdv_arm(self):
        p = self.policy
        self.rdv_phase = 0
        self.rdv_target = None
        self.rdv_seen = set()
        self.rdv_n = self.rng.randrange(1, p.get('est', 60))
        self.rdv_parked = set()
        self.rdv_burst = p.get('burst', 200)
        self.rdv_rounds -= 1

    def _geom(self, p):
        if p >= 1:
            return 1
        if p <= 0:
            return 1 << 60
        n = 1
        r = self.rng.random()
        # inverse CDF of the geometric distribution, without math.log on 0
        import math
        return max(1, int(math.log(max(r, 1e-300)) / math.log(1 - p)) + 1)

    def _pick_start(self):
        if self.replay:
            if self.sched_in:
                tid = self.sched_in[0][0]
                if tid < len(self.threads):
                    return self.threads[tid]
            return self.threads[0]
        if self.policy['kind'] in ('pct', 'pctc', 'pcta'):
            return max(self.threads, key=lambda x: x.prio)
        return self.rng.choice(self.threads)

    def _pick_among(self, cands):
        if self.replay:
            if self.si < len(self.sched_in):
                tid = self.sched_in[self.si][0]
                for c in cands:
                    if c.tid == tid:
                        return c
            self.misaligned += 1
            return min(cands, key=lambda x: x.tid)
        if self.policy['kind'] in ('pct', 'pctc', 'pcta'):
            return max(cands, key=lambda x: x.prio)
        if self.policy['kind'] == 'rdv' and self.rdv_phase == 0:
            free = [c for c in cands if c.tid not in self.rdv_parked]
            cands = free or cands
        return self.rng.choice(cands)

    def _pick_after_finish(self, t):
        cands = self._runnable()
        if not cands:
            return None
        return self._pick_among(cands)

    def _choose(self, t, code, line=None):
        if self.replay:
            segs = self.sched_in
            if self.si >= len(segs):
                return t
            seg = segs[self.si]
            if seg[0] != t.tid:
                # misaligned (shrunk schedule): re-synchronise on the segment of this thread
                self.misaligned += 1
                return t
            self.used += 1
            if self.used < seg[1] or (len(seg) > 2 and seg[2]):
                return t                      # (a stretch that ended by finishing is never cut short)
            self.si += 1
            self.used = 0
            if self.si < len(segs):
                tid = segs[self.si][0]
                if tid == t.tid:
                    return t
                if tid < len(self.threads) and self.threads[tid].state == 'runnable':
                    return self.threads[tid]
                self.misaligned += 1
                # named thread cannot run: skip its segments
                while self.si < len(segs) and (segs[self.si][0] >= len(self.threads) or
                                               self.threads[segs[self.si][0]].state != 'runnable'):
                    self.si += 1
                if self.si < len(segs) and segs[self.si][0] != t.tid:
                    return self.threads[segs[self.si][0]]
            return t
        if len(self.threads) == 1:
            return t
        p = self.policy
        kind = p['kind']
        if kind == 'walk':
            self.countdown -= 1
            if self.countdown > 0:
                return t
            self.countdown = self._geom(p['p'])
            others = [x for x in self.threads if x.state == 'runnable' and x is not t]
            return self.rng.choice(others) if others else t
        if kind == 'crit':
            pr = p['p_crit'] if code in self.crit else p['p_base']
            if self.rng.random() >= pr:
                return t
            others = [x for x in self.threads if x.state == 'runnable' and x is not t]
            return self.rng.choice(others) if others else t
        if kind == 'pct':
            if self.nsteps in self.pct_points:
                t.prio = self._pct_low
                self._pct_low -= 1
            best = max(self._runnable(), key=lambda x: x.prio)
            return best
        if kind == 'pcta':
            if code is not None and (code, line) in self.access:
                self.crit_steps += 1
                if self.crit_steps in self.pctc_points:
                    t.prio = self._pct_low
                    self._pct_low -= 1
            return max(self._runnable(), key=lambda x: x.prio)
        if kind == 'pctc':
            if code in self.crit:
                self.crit_steps += 1
                if self.crit_steps in self.pctc_points:
                    t.prio = self._pct_low
                    self._pct_low -= 1
            return max(self._runnable(), key=lambda x: x.prio)
        if kind == 'rdv':
            if self.rdv_phase == 0:
                if code is not None and (code, line) in self.access:
                    key = (code, line)
                    if self.rdv_target is None and key not in self.rdv_seen:
                        self.rdv_seen.add(key)
                        if len(self.rdv_seen) == self.rdv_n:
                            self.rdv_target = key
                    if key == self.rdv_target:
                        self.rdv_parked.add(t.tid)
                if t.tid not in self.rdv_parked:
                    return t
                free = [x for x in self.threads if x.state == 'runnable' and x.tid not in self.rdv_parked]
                if free:
                    return self.rng.choice(free)
                self.rdv_phase = 1
            if self.rdv_phase == 1:
                self.rdv_burst -= 1
                if self.rdv_burst <= 0:
                    if self.rdv_rounds > 0:
                        self._rdv_arm()
                    else:
                        self.rdv_phase = 2
                    return t
                if self.rng.random() < p.get('alt', 1.0):
                    others = [x for x in self.threads if x.state == 'runnable' and x is not t]
                    return self.rng.choice(others) if others else t
            return t
        if kind == 'seq':
            return t
        raise ValueError(kind)

    # ---- results ---------------------------------------------------------------------
    def digest(self):
        return self.h.hexdigest()

    def switch_digest(self):
        return self.switch_h.hexdigest()


def hash_tag(x):
    return int.from_bytes(hashlib.blake2b(repr(x).encode(), digest_size=4).digest(), 'little', signed=True)
