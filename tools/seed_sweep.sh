#!/bin/sh
# usage: tools/seed_sweep.sh <first seed> <last seed>   -- quick tier of every check under several VERIF_SEED values
# prints one line per (check, seed); any exit code other than 0 on the unchanged tree needs attention
cd "$(dirname "$0")/.."
for s in $(seq "$1" "$2"); do
  for p in C09 C10 C20; do
    out=$(VERIF_SEED=$s ./check $p --tier quick --no-evidence 2>&1)
    code=$?
    echo "seed=$s $p exit=$code $(echo "$out" | tail -1)"
    if [ $code -ne 0 ]; then echo "$out" | grep -E "VIOLATION|HARNESS|KNOWN" | head -5; fi
  done
done
