#!/bin/sh
# refresh evidence/*.json with the quick tier (default seed), validate MANIFEST and evidence against the schemas
cd "$(dirname "$0")/.."
for p in C09 C10 C20; do ./check $p --tier quick | tail -1; done
python3-vt - <<'PY'
import json, jsonschema
m = json.load(open('/verif/MANIFEST.json'))
jsonschema.validate(m, json.load(open('/root/.vp/MANIFEST.schema.json')))
for c in m['checks']:
    e = json.load(open(c['evidence_file']))
    jsonschema.validate(e, json.load(open('/root/.vp/EVIDENCE.schema.json')))
    print(c['property_id'], e['tier'], e['coverage']['evaluations'], e['coverage']['distinct_nontrivial'], 'violations', e.get('violations'))
print('schemas ok')
PY
