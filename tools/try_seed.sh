#!/bin/sh
# usage: tools/try_seed.sh <worktree with a seeded change applied, demo.py inside> <C09|C10|C20> [tier]
# 1. unedited suite with the change  2. demo fails with / passes without the change  3. the check against it
HERE=$(cd "$(dirname "$0")/.." && pwd)
D=$1; P=$2; T=${3:-quick}
cd "$D" || exit 9
echo "== $(git diff --stat -- kingdon | tail -1)"
echo "== tests with change: $(timeout 1200 /venv/bin/python -m pytest -q -p no:cacheprovider -n 8 2>&1 | tail -1)"
timeout 300 /venv/bin/python demo.py > /dev/null 2>&1; echo "== demo with change: exit $?"
git stash -q -- kingdon
timeout 300 /venv/bin/python demo.py > /dev/null 2>&1; echo "== demo without change: exit $?"
git stash pop -q
cd "$HERE" || exit 9
out=$(VERIF_REPO="$D" ./check "$P" --tier "$T" --no-evidence 2>&1); code=$?
echo "== check $P $T: exit $code :: $(echo "$out" | tail -1)"
echo "$out" | grep -E "VIOLATION|HARNESS" | head -3
