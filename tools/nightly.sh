#!/bin/sh
# quick tier under several seeds, then the thorough tier once
cd "$(dirname "$0")/.."
tools/seed_sweep.sh "$1" "$2"
tools/soak.sh "$3"
