#!/bin/sh
# quick tier under seeds $1..$2, then the thorough tier under each remaining argument
cd "$(dirname "$0")/.."
a=$1; b=$2; shift 2
tools/seed_sweep.sh "$a" "$b"
for s in "$@"; do tools/soak.sh "$s"; done
