#!/bin/sh
# usage: tools/all_seeded.sh [tier]  -- apply every stored seeded change in a scratch worktree of /repo, run the check of
# its property against it, print one line per change (exit 1 = caught), remove the worktree again
HERE=$(cd "$(dirname "$0")/.." && pwd)
T=${1:-quick}
W=/tmp/wt_allseeded
for d in "$HERE"/seeded/*/; do
  id=$(basename "$d")
  case "$id" in benign_*) continue;; esac
  prop=$(python3 -c "import json,sys; print(json.load(open(sys.argv[1]))['property'])" "$d/meta.json")
  rm -rf "$W"; git -C /repo worktree add -q --detach "$W" HEAD || exit 9
  # patches were written against the /repo commit named in meta.json; later fix: commits may touch the same lines
  if ! git -C "$W" apply "$d/patch.diff" 2>/dev/null && ! git -C "$W" apply --3way "$d/patch.diff" >/dev/null 2>&1; then
    echo "$id $prop APPLY-FAILED (written against an earlier commit of /repo)"; git -C /repo worktree remove --force "$W"; continue; fi
  out=$(cd "$HERE" && VERIF_REPO="$W" ./check "$prop" --tier "$T" --no-evidence 2>&1); code=$?
  echo "$id $prop exit=$code $(echo "$out" | tail -1)"
  git -C /repo worktree remove --force "$W"
done
