#!/bin/sh
# usage: tools/soak.sh <seed> -- thorough tier of every check, one after the other (no evidence written)
cd "$(dirname "$0")/.."
for p in C20 C10 C09; do
  out=$(VERIF_SEED=$1 ./check $p --tier thorough --no-evidence 2>&1); code=$?
  echo "seed=$1 $p exit=$code $(echo "$out" | tail -1)"
  if [ $code -ne 0 ]; then echo "$out" | grep -E "VIOLATION|HARNESS|KNOWN" | head -8; fi
done
